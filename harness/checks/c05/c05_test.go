// Package c05 decides property C05: the block/metadata store (database
// interface, ffldb, internal treap) is atomic, isolated, prefix-durable and
// byte-faithful.  The oracle is the reference model verif/internal/model/kvmodel
// written from database/interface.go.
package c05

import (
	"bytes"
	"errors"
	"flag"
	"fmt"
	"io"
	"os"
	"path/filepath"
	"sort"
	"strings"
	"testing"
	"time"

	"github.com/btcsuite/btcd/btcutil/v2"
	"github.com/btcsuite/btcd/chainhash/v2"
	"github.com/btcsuite/btcd/database"
	"github.com/btcsuite/btcd/database/ffldb"
	"github.com/btcsuite/btcd/wire/v2"
	"pgregory.net/rapid"

	"verif/internal/ev"
	"verif/internal/model/kvmodel"
	"verif/internal/scratch"
)

func TestMain(m *testing.M) {
	flag.Parse()
	// histories of up to ~80 steps (rapid's default average is 30)
	if f := flag.Lookup("rapid.steps"); f != nil && f.Value.String() == "30" {
		_ = flag.Set("rapid.steps", "60")
	}
	code := m.Run()
	scratch.Sweep()
	ev.Flush()
	os.Exit(code)
}

// Signatures of known findings (see /verif/known_findings.jsonl).  Each is
// excluded by construction from generation when listed, and reproduced
// deterministically by TestKnownFindings.  The obs* labels are API-contract
// deviations of interface.go that property C05 does not claim: their input
// classes are outside the generated domain and they are only counted as
// observations ("observed:<label>"), never asserted.
const (
	sigCursorReversal   = "cursor-direction-reversal-over-two-sources"
	sigCursorStaleSeek  = "cursor-reposition-after-mutation-stale-reseek-key"
	obsPutBucketName    = "put-on-existing-bucket-name-accepted"
	obsDeleteBucketName = "delete-on-existing-bucket-name-no-error"
	obsDeleteEmptyKey   = "delete-empty-key-no-error"
	obsCursorDeleteRO   = "cursor-delete-in-read-only-tx-no-error"
	sigReaderPruned     = "open-reader-loses-blocks-pruned-by-later-commit"
	sigPruneFault       = "prune-then-failed-commit-loses-blocks"
	sigPruneCrash       = "prune-commit-unflushed-crash-image-loses-blocks"
	obsPruneTwice       = "prune-twice-in-one-tx-commit-fails-after-deleting-files"
	obsBeenPruned       = "been-pruned-false-when-single-file-left"
	sigRegionPast       = "region-up-to-12-bytes-past-block-end-accepted"
	sigSeekBuckets      = "cursor-seek-loses-nested-buckets-held-in-treap-layer"
	sigTreapSeekStart   = "treap-iterator-seek-below-start-key"
	sigTreapStaleSeek   = "treap-iterator-reposition-keeps-stale-reseek-key"
	sigTreapOneBound    = "treap-iterator-first-last-ignore-single-bound"
	sigSnapshotFlush    = "snapshot-begun-during-cache-flush-sees-stale-state"
)

func known(sig string) bool { return ev.IsKnown("C05", sig) }

// ---------------------------------------------------------------------------
// failure plumbing: the same interpreter runs under *rapid.T and *testing.T

type failer interface {
	Fatalf(format string, args ...any)
	Logf(format string, args ...any)
}

// abortCase is panicked to leave a case early after a listed known finding.
type abortCase struct{ sig string }

func catchAbort() {
	if r := recover(); r != nil {
		if _, ok := r.(abortCase); ok {
			return
		}
		panic(r)
	}
}

// knownOrFatal reports a mismatch: a listed signature ends the case quietly
// (counted), anything else is a violation.
func knownOrFatal(t failer, rec *ev.Rec, sig, msg string) {
	if sig != "" && rec.Known(sig, msg) {
		rec.Excluded()
		panic(abortCase{sig})
	}
	t.Fatalf("%s", msg)
}

func infra(t failer, format string, args ...any) {
	t.Fatalf("VERIF-INFRA: "+format, args...)
}

// ---------------------------------------------------------------------------
// error classes

func codeOf(err error) kvmodel.Code {
	if err == nil {
		return kvmodel.OK
	}
	var de database.Error
	if errors.As(err, &de) {
		switch de.ErrorCode {
		case database.ErrTxClosed:
			return kvmodel.TxClosed
		case database.ErrTxNotWritable:
			return kvmodel.TxNotWritable
		case database.ErrBucketNotFound:
			return kvmodel.BucketNotFound
		case database.ErrBucketExists:
			return kvmodel.BucketExists
		case database.ErrBucketNameRequired:
			return kvmodel.BucketNameRequired
		case database.ErrKeyRequired:
			return kvmodel.KeyRequired
		case database.ErrIncompatibleValue:
			return kvmodel.IncompatibleValue
		case database.ErrBlockNotFound:
			return kvmodel.BlockNotFound
		case database.ErrBlockExists:
			return kvmodel.BlockExists
		case database.ErrBlockRegionInvalid:
			return kvmodel.BlockRegionInvalid
		case database.ErrDbNotOpen:
			return kvmodel.DbNotOpen
		}
	}
	return kvmodel.Other
}

// ---------------------------------------------------------------------------
// blocks

type blk struct {
	b    *btcutil.Block
	raw  []byte
	hash kvmodel.Hash
	ch   chainhash.Hash
}

func (b *blk) String() string { return fmt.Sprintf("blk(%x.. %dB)", b.hash[:4], len(b.raw)) }

// expand stretches a rapid-drawn seed into n bytes (a deterministic function of
// the draw; keeps big payloads cheap to generate and to shrink).
func expand(seed uint64, n int) []byte {
	out := make([]byte, n)
	x := seed | 1
	for i := range out {
		x ^= x << 13
		x ^= x >> 7
		x ^= x << 17
		out[i] = byte(x >> 24)
	}
	return out
}

func genBytes(t *rapid.T, label string, lens []int) []byte {
	n := rapid.SampledFrom(lens).Draw(t, label+"len")
	if n == 0 {
		return []byte{}
	}
	return expand(rapid.Uint64().Draw(t, label+"seed"), n)
}

// genBlock draws a serialisable block: any header, 0..4 small transactions.
// uniq makes the header unique within a case.
func genBlock(t *rapid.T, uniq uint32, maxLen int) *blk {
	var mb wire.MsgBlock
	mb.Header.Version = rapid.Int32().Draw(t, "ver")
	rb := rapid.SliceOfN(rapid.Byte(), 64, 64).Draw(t, "hdr")
	copy(mb.Header.PrevBlock[:], rb[:32])
	copy(mb.Header.MerkleRoot[:], rb[32:])
	mb.Header.Timestamp = time.Unix(int64(rapid.Uint32().Draw(t, "ts")), 0)
	mb.Header.Bits = rapid.Uint32().Draw(t, "bits")
	mb.Header.Nonce = uniq
	// sizes: tiny blocks, blocks around 1 KiB (the smallest file limit) and up to ~2.5 KiB
	ntx := rapid.SampledFrom([]int{0, 1, 1, 2, 2, 3, 4}).Draw(t, "ntx")
	for i := 0; i < ntx; i++ {
		tx := wire.NewMsgTx(rapid.Int32Range(1, 2).Draw(t, "txver"))
		nin := rapid.IntRange(1, 2).Draw(t, "nin")
		for j := 0; j < nin; j++ {
			var op wire.OutPoint
			op.Index = rapid.Uint32().Draw(t, "idx")
			ss := genBytes(t, "ss", []int{0, 8, 60, 107, 300})
			tx.AddTxIn(wire.NewTxIn(&op, ss, nil))
		}
		nout := rapid.IntRange(0, 2).Draw(t, "nout")
		for j := 0; j < nout; j++ {
			pk := genBytes(t, "pk", []int{0, 25, 34, 200, 600, 900})
			tx.AddTxOut(wire.NewTxOut(rapid.Int64Range(0, 21e14).Draw(t, "amt"), pk))
		}
		tx.LockTime = rapid.Uint32().Draw(t, "lock")
		mb.AddTransaction(tx)
	}
	// a block record (block + 12 bytes) never exceeds the block-file size limit (512 MiB in
	// production vs 4 MB blocks): drop transactions until the generated block fits
	for maxLen > 0 && mb.SerializeSize() > maxLen && len(mb.Transactions) > 0 {
		mb.Transactions = mb.Transactions[:len(mb.Transactions)-1]
	}
	var buf bytes.Buffer
	if err := mb.Serialize(&buf); err != nil {
		infra(t, "cannot serialise generated block: %v", err)
	}
	raw := buf.Bytes()
	if maxLen > 0 && len(raw) > maxLen {
		infra(t, "generated block of %d bytes exceeds the cap %d", len(raw), maxLen)
	}
	b := &blk{b: btcutil.NewBlock(&mb), raw: raw, hash: kvmodel.BlockHash(raw)}
	b.ch = chainhash.Hash(b.hash)
	// harness self-check: the independent hash equals the key ffldb will use
	if *b.b.Hash() != b.ch {
		infra(t, "model block hash %x != btcutil hash %s", b.hash, b.b.Hash())
	}
	return b
}

// ---------------------------------------------------------------------------
// names and values

var nameAlphabet = []string{"a", "b", "c", "d", "e", "a\x00", "aa", "ab", "b\xff", "\x00", "\xff", "\xff\xff", "k1", "k2", "zz", "bidx", "\x00\x00\x00\x01"}
var bucketAlphabet = []string{"p", "q", "r", "p\x00", "pp", "\x01", "\xfe", "bkt"}

func genVal(t *rapid.T) []byte {
	switch rapid.IntRange(0, 9).Draw(t, "vkind") {
	case 0:
		return nil
	case 1:
		return []byte{}
	case 2:
		return genBytes(t, "bigval", []int{500, 1000, 2047, 2048})
	default:
		return rapid.SliceOfN(rapid.Byte(), 1, 12).Draw(t, "val")
	}
}

// ---------------------------------------------------------------------------
// operations

// Op is one operation on a transaction, as plain data so that a generated
// workload can be replayed any number of times.
type Op struct {
	K      string // kind
	Path   []string
	Name   string
	Val    []byte
	B      []int // indexes into the block pool
	Regs   []RegSpec
	N      int    // ForEach: stop after N entries (-1: never)
	Target uint64 // PruneBlocks
	Cur    int    // cursor slot
}

type RegSpec struct {
	B        int
	Off, Len uint32
}

func (o Op) String() string {
	var sb strings.Builder
	fmt.Fprintf(&sb, "%s", o.K)
	if o.Path != nil || o.K == "put" || o.K == "get" {
		fmt.Fprintf(&sb, " /%s", strings.Join(quoteAll(o.Path), "/"))
	}
	if o.Name != "" || o.K == "put" || o.K == "del" || o.K == "mkb" {
		fmt.Fprintf(&sb, " %q", o.Name)
	}
	if o.K == "put" {
		if o.Val == nil {
			sb.WriteString(" =nil")
		} else {
			fmt.Fprintf(&sb, " =[%d]%x", len(o.Val), head(o.Val, 6))
		}
	}
	if len(o.B) > 0 {
		fmt.Fprintf(&sb, " blocks%v", o.B)
	}
	for _, r := range o.Regs {
		fmt.Fprintf(&sb, " region(b%d,%d,%d)", r.B, r.Off, r.Len)
	}
	if o.K == "foreach" || o.K == "foreachb" {
		fmt.Fprintf(&sb, " stop=%d", o.N)
	}
	if o.K == "prune" {
		fmt.Fprintf(&sb, " target=%d", o.Target)
	}
	if strings.HasPrefix(o.K, "c") && (o.K[1:] == "first" || o.K[1:] == "last" || o.K[1:] == "next" || o.K[1:] == "prev" || o.K[1:] == "seek" || o.K[1:] == "del" || o.K[1:] == "new" || o.K[1:] == "kv") {
		fmt.Fprintf(&sb, " cur#%d", o.Cur)
	}
	return sb.String()
}

func quoteAll(s []string) []string {
	o := make([]string, len(s))
	for i := range s {
		o[i] = fmt.Sprintf("%q", s[i])
	}
	return o
}

func head(b []byte, n int) []byte {
	if len(b) > n {
		return b[:n]
	}
	return b
}

// txPair is a real transaction together with its model.
type txPair struct {
	real       database.Tx
	m          *kvmodel.Tx
	curs       []*curPair
	lost       map[kvmodel.Hash]bool // blocks pruned by commits after this tx began (known finding class)
	cacheOK    bool                  // ffldb's metadata cache was empty at Begin (single-source iterators)
	id         int
	managed    bool
	prunes     int                   // PruneBlocks calls that reported deletions in this tx
	pruneCalls int                   // successful PruneBlocks calls in this tx
	pruned     map[kvmodel.Hash]bool // blocks whose files this transaction's commit deletes
}

type curPair struct {
	real database.Cursor
	m    *kvmodel.Cursor
	// needFresh: a mutation happened in the transaction after the cursor had
	// been positioned (known finding sigCursorStaleSeek: the same cursor
	// object cannot be repositioned reliably)
	needFresh bool
	tainted   bool // repositioned although needFresh (only when the finding is not listed)
	reversal  bool // the operation being compared reverses the direction of travel
	seekRisk  bool // positioned by Seek while nested buckets live in a treap layer (known finding class)
	lastMove  string
}

// env is one database under test plus its model.
type env struct {
	t        failer
	rec      *ev.Rec
	dir      string
	db       database.DB
	m        *kvmodel.DB
	maxFile  uint32
	pool     []*blk
	log      []string
	lenient  bool // fault mode: unexpected real errors abort the closure instead of failing
	flushed  bool // leveldb may hold user data (a flush or reopen happened)
	classes  map[string]bool
	nextTxID int
}

func newEnv(t failer, rec *ev.Rec, tag string, maxFile uint32) *env {
	e := &env{t: t, rec: rec, dir: scratch.Dir(tag), m: kvmodel.NewDB(), maxFile: maxFile, classes: map[string]bool{}}
	db, err := database.Create("ffldb", e.dir, wire.MainNet)
	if err != nil {
		infra(t, "database.Create: %v", err)
	}
	e.db = db
	return e
}

func (e *env) cleanup() {
	if e.db != nil {
		done := make(chan struct{})
		db := e.db
		go func() { defer close(done); _ = db.Close() }()
		select {
		case <-done:
		case <-time.After(3 * time.Second): // a tx left open by a failing case: do not hang
		}
		e.db = nil
	}
	os.RemoveAll(e.dir)
}

func (e *env) logf(format string, args ...any) {
	e.log = append(e.log, fmt.Sprintf(format, args...))
}

func (e *env) history() string {
	return "\n  history:\n    " + strings.Join(e.log, "\n    ")
}

func (e *env) failf(sig string, format string, args ...any) {
	msg := fmt.Sprintf(format, args...)
	if sig != "" {
		if os.Getenv("C05_DEBUG") != "" && known(sig) {
			fmt.Println("DEBUG known-finding abort:", msg, e.history())
		}
		knownOrFatal(e.t, e.rec, sig, msg)
	}
	e.t.Fatalf("%s%s", msg, e.history())
}

// withMax runs fn with the block-file size limit of the case.
func (e *env) withMax(fn func()) {
	ffldb.TstRunWithMaxBlockFileSize(e.db, e.maxFile, fn)
}

func (e *env) cacheEmpty() bool {
	a, b := ffldb.VerifCacheLen(e.db)
	return a == 0 && b == 0
}

// lenientErr is returned out of a managed closure in fault mode.
type lenientErr struct{ err error }

func (l lenientErr) Error() string {
	return "real operation failed under fault injection: " + l.err.Error()
}

// expect compares an error with the model's admissible set.
func (e *env) expect(op Op, want kvmodel.Code, err error, sig string) {
	got := codeOf(err)
	if want.Has(got) {
		return
	}
	if e.lenient && err != nil && (want.Has(kvmodel.OK) || got == kvmodel.Other) {
		// fault injection: any operation may fail with a driver-specific error
		// instead of its contract result; the closure gives up with that error
		panic(lenientErr{err})
	}
	e.failf(sig, "%s: btcd returned %s (%v), contract (model) admits %s", op, got, err, want)
}

// bucketAt resolves a path in the real transaction, checking every step
// against the model.
func (e *env) bucketAt(p *txPair, path []string) database.Bucket {
	b := p.real.Metadata()
	for i, name := range path {
		nb := b.Bucket([]byte(name))
		if nb == nil {
			if p.m.Bucket(path[:i+1]) != nil {
				e.failf("", "Bucket(%q) under /%s is nil, model has the bucket (tx#%d)", name, strings.Join(quoteAll(path[:i]), "/"), p.id)
			}
			return nil
		}
		b = nb
	}
	if (p.m.Bucket(path) == nil) != (b == nil) {
		e.failf("", "bucket /%s: btcd exists=%v, model exists=%v", strings.Join(quoteAll(path), "/"), b != nil, p.m.Bucket(path) != nil)
	}
	return b
}

func isInternal(path []string, name string, bucket bool) bool {
	if len(path) != 0 {
		return false
	}
	if bucket {
		return name == "ffldb-blockidx"
	}
	return name == "ffldb-writeloc"
}

// markMutation is called after every successful mutation in a transaction.
func (p *txPair) markMutation(path []string, viaCursor *curPair) {
	for _, c := range p.curs {
		if c.m.Positioned || c.m.Reseeked {
			c.needFresh = true
		}
		if c != viaCursor && samePath(c.m.Path, path) {
			c.m.Stale = true
		}
	}
}

func samePath(a, b []string) bool {
	if len(a) != len(b) {
		return false
	}
	for i := range a {
		if a[i] != b[i] {
			return false
		}
	}
	return true
}

// apply executes op on the real transaction and the model and compares.
func (e *env) apply(p *txPair, op Op) {
	e.logf("tx#%d %s", p.id, op)
	closed := p.m.Closed
	switch op.K {
	case "put":
		b := e.rootOrPath(p, op.Path)
		want := p.m.Put(op.Path, op.Name, op.Val)
		if want == kvmodel.IncompatibleValue {
			infra(e.t, "generator produced an input outside the domain: %s (key names a bucket)", op)
		}
		err := b.Put([]byte(op.Name), op.Val)
		e.expect(op, want, err, "")
		if want == kvmodel.OK {
			p.markMutation(op.Path, nil)
		}
	case "del":
		b := e.rootOrPath(p, op.Path)
		want := p.m.Delete(op.Path, op.Name)
		if want == kvmodel.IncompatibleValue || want == kvmodel.KeyRequired {
			infra(e.t, "generator produced an input outside the domain: %s", op)
		}
		err := b.Delete([]byte(op.Name))
		e.expect(op, want, err, "")
		if want == kvmodel.OK {
			p.markMutation(op.Path, nil)
		}
	case "get":
		b := e.rootOrPath(p, op.Path)
		if closed {
			return // Get has no error result; nothing documented for a closed tx
		}
		want := p.m.Get(op.Path, op.Name)
		got := b.Get([]byte(op.Name))
		if (want == nil) != (got == nil) || !bytes.Equal(want, got) {
			e.failf("", "%s: btcd %s, model %s", op, showVal(got), showVal(want))
		}
	case "mkb", "mkbx":
		b := e.rootOrPath(p, op.Path)
		want := p.m.CreateBucket(op.Path, op.Name, op.K == "mkbx")
		var err error
		var nb database.Bucket
		if op.K == "mkbx" {
			nb, err = b.CreateBucketIfNotExists([]byte(op.Name))
		} else {
			nb, err = b.CreateBucket([]byte(op.Name))
		}
		e.expect(op, want, err, "")
		if want == kvmodel.OK {
			if nb == nil {
				e.failf("", "%s: nil bucket with nil error", op)
			}
			if nb.Writable() != p.m.Writable {
				e.failf("", "%s: Writable()=%v in a tx with writable=%v", op, nb.Writable(), p.m.Writable)
			}
			p.markMutation(op.Path, nil)
		}
	case "rmb":
		b := e.rootOrPath(p, op.Path)
		want := p.m.DeleteBucket(op.Path, op.Name)
		err := b.DeleteBucket([]byte(op.Name))
		e.expect(op, want, err, "")
		if want == kvmodel.OK {
			p.markMutation(op.Path, nil)
			// cursors over the deleted subtree are gone
			sub := append(append([]string(nil), op.Path...), op.Name)
			kept := p.curs[:0]
			for _, c := range p.curs {
				if len(c.m.Path) >= len(sub) && samePath(c.m.Path[:len(sub)], sub) {
					continue
				}
				kept = append(kept, c)
			}
			p.curs = kept
		}
	case "foreach", "foreachb":
		e.applyForEach(p, op)
	case "cnew", "cfirst", "clast", "cnext", "cprev", "cseek", "cdel", "ckv":
		e.applyCursor(p, op)
	case "store":
		bk := e.pool[op.B[0]]
		want := p.m.StoreBlock(bk.raw)
		err := p.real.StoreBlock(bk.b)
		e.expect(op, want, err, "")
	case "has":
		bk := e.pool[op.B[0]]
		wantHas, want := p.m.HasBlock(bk.hash)
		got, err := p.real.HasBlock(&bk.ch)
		e.expect(op, want, err, "")
		if want == kvmodel.OK && got != wantHas {
			e.failf("", "%s %s: btcd %v, model %v", op, bk, got, wantHas)
		}
	case "hasn":
		hs := make([]chainhash.Hash, len(op.B))
		for i, bi := range op.B {
			hs[i] = e.pool[bi].ch
		}
		got, err := p.real.HasBlocks(hs)
		if closed {
			e.expect(op, kvmodel.TxClosed, err, "")
			return
		}
		e.expect(op, kvmodel.OK, err, "")
		if len(got) != len(hs) {
			e.failf("", "%s: %d results for %d hashes", op, len(got), len(hs))
		}
		for i, bi := range op.B {
			w, _ := p.m.HasBlock(e.pool[bi].hash)
			if got[i] != w {
				e.failf("", "%s: result[%d] btcd %v, model %v", op, i, got[i], w)
			}
		}
	case "fetch", "hdr":
		bk := e.pool[op.B[0]]
		if p.lost[bk.hash] && known(sigReaderPruned) {
			e.rec.Excluded()
			return
		}
		var want []byte
		var wc kvmodel.Code
		var got []byte
		var err error
		if op.K == "fetch" {
			want, wc = p.m.FetchBlock(bk.hash)
			got, err = p.real.FetchBlock(&bk.ch)
		} else {
			want, wc = p.m.FetchBlockHeader(bk.hash)
			got, err = p.real.FetchBlockHeader(&bk.ch)
		}
		sig := ""
		if p.lost[bk.hash] {
			sig = sigReaderPruned
		}
		e.expect(op, wc, err, sig)
		if wc == kvmodel.OK && !bytes.Equal(got, want) {
			e.failf("", "%s %s: fetched bytes differ from stored bytes\n got  %x\n want %x", op, bk, got, want)
		}
	case "fetchn", "hdrn":
		hs := make([]chainhash.Hash, len(op.B))
		var wc kvmodel.Code
		wants := make([][]byte, len(op.B))
		for i, bi := range op.B {
			bk := e.pool[bi]
			if p.lost[bk.hash] && known(sigReaderPruned) {
				e.rec.Excluded()
				return
			}
			hs[i] = bk.ch
			var c kvmodel.Code
			if op.K == "fetchn" {
				wants[i], c = p.m.FetchBlock(bk.hash)
			} else {
				wants[i], c = p.m.FetchBlockHeader(bk.hash)
			}
			if c != kvmodel.OK {
				wc |= c
			}
		}
		if wc == 0 {
			wc = kvmodel.OK
		}
		var got [][]byte
		var err error
		if op.K == "fetchn" {
			got, err = p.real.FetchBlocks(hs)
		} else {
			got, err = p.real.FetchBlockHeaders(hs)
		}
		e.expect(op, wc, err, "")
		if wc == kvmodel.OK {
			if len(got) != len(hs) {
				e.failf("", "%s: %d results for %d hashes", op, len(got), len(hs))
			}
			for i := range got {
				if !bytes.Equal(got[i], wants[i]) {
					e.failf("", "%s: result[%d] differs from stored bytes", op, i)
				}
			}
		}
	case "region":
		r := op.Regs[0]
		bk := e.pool[r.B]
		if p.lost[bk.hash] && known(sigReaderPruned) {
			e.rec.Excluded()
			return
		}
		want, wc := p.m.FetchBlockRegion(kvmodel.Region{Hash: bk.hash, Off: r.Off, Len: r.Len})
		got, err := p.real.FetchBlockRegion(&database.BlockRegion{Hash: &bk.ch, Offset: r.Off, Len: r.Len})
		e.expect(op, wc, err, e.regionSig(p, r))
		if wc == kvmodel.OK && !bytes.Equal(got, want) {
			e.failf("", "%s (block %dB): region bytes differ\n got  %x\n want %x", op, len(bk.raw), got, want)
		}
	case "regionn":
		mr := make([]kvmodel.Region, len(op.Regs))
		rr := make([]database.BlockRegion, len(op.Regs))
		for i, r := range op.Regs {
			bk := e.pool[r.B]
			if p.lost[bk.hash] && known(sigReaderPruned) {
				e.rec.Excluded()
				return
			}
			mr[i] = kvmodel.Region{Hash: bk.hash, Off: r.Off, Len: r.Len}
			rr[i] = database.BlockRegion{Hash: &bk.ch, Offset: r.Off, Len: r.Len}
		}
		want, wc := p.m.FetchBlockRegions(mr)
		got, err := p.real.FetchBlockRegions(rr)
		rsig := ""
		for _, r := range op.Regs {
			if s := e.regionSig(p, r); s != "" {
				rsig = s
			}
		}
		e.expect(op, wc, err, rsig)
		if wc == kvmodel.OK {
			if len(got) != len(want) {
				e.failf("", "%s: %d results for %d regions", op, len(got), len(want))
			}
			for i := range got {
				if !bytes.Equal(got[i], want[i]) {
					e.failf("", "%s: region[%d] bytes differ\n got  %x\n want %x", op, i, got[i], want[i])
				}
			}
		}
	case "prune":
		pre := p.m.PrunePre()
		var got []chainhash.Hash
		var err error
		e.withMax(func() { got, err = p.real.PruneBlocks(op.Target) })
		if pre != 0 {
			e.expect(op, pre, err, "")
			return
		}
		if err != nil {
			if e.lenient {
				panic(lenientErr{err})
			}
			e.failf("", "%s: unexpected error %v", op, err)
		}
		p.pruneCalls++
		hs := make([]kvmodel.Hash, len(got))
		for i := range got {
			hs[i] = kvmodel.Hash(got[i])
		}
		if msg := p.m.PruneCheck(hs); msg != "" {
			e.failf("", "%s: %s (reported %d hashes)", op, msg, len(hs))
		}
		if op.Target >= 1<<40 && len(hs) != 0 {
			e.failf("", "%s: %d blocks pruned although the target exceeds any possible store size", op, len(hs))
		}
		if len(hs) > 0 || p.prunes > 0 {
			p.prunes++ // every call after one that scheduled deletions re-schedules the same files
		}
		if len(hs) > 0 {
			e.classes["prune"] = true
			if p.m.IsOldestPrefix(hs) {
				e.rec.Count("prune-oldest-prefix", 1)
			} else {
				e.rec.Count("prune-not-oldest-prefix", 1)
			}
		}
		if len(hs) > 0 {
			// PruneBlocks removes index rows through an internal Cursor.Delete, which
			// notifies (ForceReseek) every open cursor of the transaction
			p.markMutation([]string{"\x00ffldb-internal-block-index"}, nil)
		}
		for _, h := range hs {
			if p.pruned == nil {
				p.pruned = map[kvmodel.Hash]bool{}
			}
			p.pruned[h] = true
		}
		e.logf("   -> pruned %d blocks", len(hs))
		p.m.PruneApply(hs)
	default:
		infra(e.t, "unknown op %q", op.K)
	}
}

// regionSig: the request falls into the input class of the known finding
// sigRegionPast (committed block, end 1..12 bytes past the block).
func (e *env) regionSig(p *txPair, r RegSpec) string {
	bk := e.pool[r.B]
	L := uint64(len(bk.raw))
	end := uint64(r.Off) + uint64(r.Len)
	if _, present := p.m.S.Blocks[bk.hash]; present && !p.m.Pending[bk.hash] && end > L && end <= L+12 {
		return sigRegionPast
	}
	return ""
}

func showVal(v []byte) string {
	if v == nil {
		return "nil"
	}
	return fmt.Sprintf("[%d]%x", len(v), head(v, 16))
}

// rootOrPath: on a closed transaction only the root handle is reachable.
func (e *env) rootOrPath(p *txPair, path []string) database.Bucket {
	if p.m.Closed {
		return p.real.Metadata()
	}
	b := e.bucketAt(p, path)
	if b == nil {
		infra(e.t, "generator addressed a bucket that does not exist: %v", path)
	}
	return b
}

var errStop = errors.New("stop iteration (harness)")

func (e *env) applyForEach(p *txPair, op Op) {
	b := e.rootOrPath(p, op.Path)
	var names []string
	var vals [][]byte
	n := 0
	var err error
	if op.K == "foreach" {
		err = b.ForEach(func(k, v []byte) error {
			if isInternal(op.Path, string(k), false) {
				return nil
			}
			if n == op.N {
				return errStop
			}
			n++
			names = append(names, string(k))
			vals = append(vals, append([]byte{}, v...))
			return nil
		})
	} else {
		err = b.ForEachBucket(func(k []byte) error {
			if isInternal(op.Path, string(k), true) {
				return nil
			}
			if n == op.N {
				return errStop
			}
			n++
			names = append(names, string(k))
			return nil
		})
	}
	if p.m.Closed {
		e.expect(op, kvmodel.TxClosed, err, "")
		return
	}
	mb := p.m.Bucket(op.Path)
	var want []string
	if op.K == "foreach" {
		want = mb.SortedKeys()
	} else {
		want = mb.SortedSubs()
	}
	stopped := false
	if op.N >= 0 && op.N < len(want) {
		want = want[:op.N]
		stopped = true
	}
	if stopped {
		if err != errStop {
			e.failf("", "%s: callback error not returned: got %v", op, err)
		}
	} else if err != nil {
		if e.lenient {
			panic(lenientErr{err})
		}
		e.failf("", "%s: unexpected error %v", op, err)
	}
	if !equalStrings(names, want) {
		e.failf("", "%s: iteration order/content differs\n btcd  %q\n model %q (byte order)", op, names, want)
	}
	if op.K == "foreach" {
		for i, k := range names {
			if !bytes.Equal(vals[i], mb.Keys[k]) || vals[i] == nil {
				e.failf("", "%s: value of %q: btcd %s, model %s", op, k, showVal(vals[i]), showVal(mb.Keys[k]))
			}
		}
	}
}

func equalStrings(a, b []string) bool {
	if len(a) != len(b) {
		return false
	}
	for i := range a {
		if a[i] != b[i] {
			return false
		}
	}
	return true
}

func (e *env) applyCursor(p *txPair, op Op) {
	if op.K == "cnew" {
		b := e.rootOrPath(p, op.Path)
		c := &curPair{real: b.Cursor(), m: p.m.NewCursor(op.Path)}
		if op.Cur < len(p.curs) {
			p.curs[op.Cur] = c
		} else {
			p.curs = append(p.curs, c)
		}
		return
	}
	c := p.curs[op.Cur]
	internalSkip := func(forward bool) bool {
		// the root bucket holds two ffldb-internal entries; step over them
		for {
			k := c.real.Key()
			if k == nil {
				return false
			}
			isB := c.real.Value() == nil
			if !isInternal(c.m.Path, string(k), isB) {
				return true
			}
			var ok bool
			if forward {
				ok = c.real.Next()
			} else {
				ok = c.real.Prev()
			}
			if !ok {
				return false
			}
		}
	}
	checkPos := func(got bool) {
		cur := c.m.Current()
		if got != (cur != nil) {
			e.failf(e.cursorSig(p, c, op), "%s on /%s: btcd returned %v, model %v (model entry %v)%s", op, strings.Join(quoteAll(c.m.Path), "/"), got, cur != nil, cur, e.cursorCtx(p, c))
		}
		if cur == nil {
			return
		}
		k, v := c.real.Key(), c.real.Value()
		if string(k) != cur.Name || (v == nil) != cur.IsBucket || !bytes.Equal(v, cur.Value) {
			e.failf(e.cursorSig(p, c, op), "%s on /%s: btcd at %q=%s, model at %q=%s bucket=%v%s", op, strings.Join(quoteAll(c.m.Path), "/"), k, showVal(v), cur.Name, showVal(cur.Value), cur.IsBucket, e.cursorCtx(p, c))
		}
	}
	if (op.K == "cfirst" || op.K == "clast" || op.K == "cseek") && c.needFresh && !p.m.Closed {
		if known(sigCursorStaleSeek) {
			// excluded input class: the same cursor object repositioned after a
			// mutation; use a fresh cursor instead
			b := e.bucketAt(p, c.m.Path)
			c.real, c.m = b.Cursor(), p.m.NewCursor(c.m.Path)
			c.needFresh = false
			e.rec.Count("excluded:reposition-same-cursor-after-mutation", 1)
		} else {
			c.tainted = true
		}
	}
	switch op.K {
	case "cfirst":
		c.lastMove = "first"
		c.seekRisk = false
		want := c.m.First()
		got := c.real.First()
		if got && !p.m.Closed {
			got = internalSkip(true)
		}
		_ = want
		checkPos(got)
	case "clast":
		c.lastMove = "last"
		c.seekRisk = false
		c.m.Last()
		got := c.real.Last()
		if got && !p.m.Closed {
			got = internalSkip(false)
		}
		checkPos(got)
	case "cseek":
		c.lastMove = "seek"
		c.seekRisk = treapBuckets(p, c.m.Path)
		c.m.Seek(op.Name)
		got := c.real.Seek([]byte(op.Name))
		if got && !p.m.Closed {
			got = internalSkip(true)
		}
		checkPos(got)
	case "cnext":
		c.reversal = c.m.Positioned && !c.m.Forward
		c.m.Next()
		got := c.real.Next()
		if got && !p.m.Closed {
			got = internalSkip(true)
		}
		checkPos(got)
		c.reversal = false
	case "cprev":
		c.reversal = c.m.Positioned && c.m.Forward
		c.m.Prev()
		got := c.real.Prev()
		if got && !p.m.Closed {
			got = internalSkip(false)
		}
		checkPos(got)
		c.reversal = false
	case "ckv":
		// Key/Value of a cursor that has not been disturbed, and Bucket()
		if c.m.Deleted || c.m.Stale {
			return
		}
		if !c.m.Positioned || p.m.Closed {
			if k, v := c.real.Key(), c.real.Value(); k != nil || v != nil {
				e.failf(e.cursorSig(p, c, op), "%s: unpositioned/exhausted cursor has Key=%q Value=%s, contract says nil", op, k, showVal(v))
			}
			return
		}
		checkPos(true)
		if !p.m.Closed && c.real.Bucket() == nil {
			e.failf("", "%s: Cursor.Bucket() is nil in an open transaction", op)
		}
	case "cdel":
		want := c.m.Delete()
		if want == kvmodel.TxNotWritable {
			infra(e.t, "generator produced an input outside the domain: %s in a read-only transaction", op)
		}
		err := c.real.Delete()
		e.expect(op, want, err, "")
		if want == kvmodel.OK {
			p.markMutation(c.m.Path, c)
			c.needFresh = true
		}
	}
}

// treapBuckets: the bucket at path has nested buckets of which some may be
// held in one of ffldb's treap layers (created in this transaction, or the
// metadata cache was not empty at Begin) - the input class of sigSeekBuckets.
func treapBuckets(p *txPair, path []string) bool {
	mb := p.m.Bucket(path)
	return mb != nil && len(mb.Subs) > 0 && !(p.cacheOK && !p.m.CreatedBucketIn(path))
}

// cursorSig classifies a cursor mismatch into a known-finding input class.
func (e *env) cursorSig(p *txPair, c *curPair, op Op) string {
	if (c.reversal || c.seekRisk) && treapBuckets(p, c.m.Path) {
		return sigSeekBuckets
	}
	if c.reversal {
		return sigCursorReversal
	}
	if c.tainted {
		return sigCursorStaleSeek
	}
	return ""
}

func (e *env) cursorCtx(p *txPair, c *curPair) string {
	b := p.m.Bucket(c.m.Path)
	if b == nil {
		return ""
	}
	var names []string
	for _, en := range b.Entries() {
		if en.IsBucket {
			names = append(names, en.Name+"/")
		} else {
			names = append(names, en.Name)
		}
	}
	return fmt.Sprintf("\n  model sequence of the bucket: %q (reversal=%v tainted=%v)", names, c.reversal, c.tainted)
}

// ---------------------------------------------------------------------------
// whole-state comparison

// dump reads everything reachable through a transaction into a model state.
// It also checks iteration order.
func (e *env) dump(tx database.Tx, lost map[kvmodel.Hash]bool) (*kvmodel.State, error) {
	st := kvmodel.NewState()
	var walk func(b database.Bucket, mb *kvmodel.Bucket, path []string) error
	walk = func(b database.Bucket, mb *kvmodel.Bucket, path []string) error {
		prev, first := "", true
		err := b.ForEach(func(k, v []byte) error {
			if isInternal(path, string(k), false) {
				return nil
			}
			if !first && string(k) <= prev {
				return fmt.Errorf("ForEach of /%s not in strictly increasing byte order: %q after %q", strings.Join(quoteAll(path), "/"), k, prev)
			}
			if v == nil {
				return fmt.Errorf("ForEach of /%s: nil value for key %q", strings.Join(quoteAll(path), "/"), k)
			}
			prev, first = string(k), false
			mb.Keys[string(k)] = append([]byte{}, v...)
			return nil
		})
		if err != nil {
			return err
		}
		var subs []string
		prev, first = "", true
		err = b.ForEachBucket(func(k []byte) error {
			if isInternal(path, string(k), true) {
				return nil
			}
			if !first && string(k) <= prev {
				return fmt.Errorf("ForEachBucket of /%s not in strictly increasing byte order: %q after %q", strings.Join(quoteAll(path), "/"), k, prev)
			}
			prev, first = string(k), false
			subs = append(subs, string(k))
			return nil
		})
		if err != nil {
			return err
		}
		for _, s := range subs {
			nb := b.Bucket([]byte(s))
			if nb == nil {
				return fmt.Errorf("ForEachBucket listed %q under /%s but Bucket() returns nil", s, strings.Join(quoteAll(path), "/"))
			}
			nmb := &kvmodel.Bucket{Keys: map[string][]byte{}, Subs: map[string]*kvmodel.Bucket{}}
			mb.Subs[s] = nmb
			if err := walk(nb, nmb, append(append([]string(nil), path...), s)); err != nil {
				return err
			}
		}
		return nil
	}
	if err := walk(tx.Metadata(), st.Root, nil); err != nil {
		return nil, err
	}
	for _, bk := range e.pool {
		has, err := tx.HasBlock(&bk.ch)
		if err != nil {
			return nil, fmt.Errorf("HasBlock(%s): %v", bk, err)
		}
		if !has {
			continue
		}
		if lost[bk.hash] && known(sigReaderPruned) {
			st.Blocks[bk.hash] = bk.raw // presence only; bytes not fetchable (known finding)
			continue
		}
		raw, err := tx.FetchBlock(&bk.ch)
		if err != nil {
			return nil, fmt.Errorf("HasBlock(%s)=true but FetchBlock fails: %v", bk, err)
		}
		st.Blocks[bk.hash] = append([]byte{}, raw...)
		hdr, err := tx.FetchBlockHeader(&bk.ch)
		if err != nil || !bytes.Equal(hdr, raw[:80]) {
			return nil, fmt.Errorf("FetchBlockHeader(%s) = %x, %v; block starts with %x", bk, hdr, err, raw[:80])
		}
	}
	return st, nil
}

// diff describes the first differences between a dumped state and the model.
func diffState(got, want *kvmodel.State, pool []*blk) string {
	var out []string
	var walk func(g, w *kvmodel.Bucket, path string)
	walk = func(g, w *kvmodel.Bucket, path string) {
		for k, v := range w.Keys {
			gv, ok := g.Keys[k]
			if !ok {
				out = append(out, fmt.Sprintf("%s/%q missing in btcd (model %s)", path, k, showVal(v)))
			} else if !bytes.Equal(gv, v) {
				out = append(out, fmt.Sprintf("%s/%q btcd %s, model %s", path, k, showVal(gv), showVal(v)))
			}
		}
		for k, v := range g.Keys {
			if _, ok := w.Keys[k]; !ok {
				out = append(out, fmt.Sprintf("%s/%q = %s only in btcd", path, k, showVal(v)))
			}
		}
		for k, s := range w.Subs {
			gs, ok := g.Subs[k]
			if !ok {
				out = append(out, fmt.Sprintf("bucket %s/%q missing in btcd", path, k))
				continue
			}
			walk(gs, s, path+"/"+fmt.Sprintf("%q", k))
		}
		for k := range g.Subs {
			if _, ok := w.Subs[k]; !ok {
				out = append(out, fmt.Sprintf("bucket %s/%q only in btcd", path, k))
			}
		}
	}
	walk(got.Root, want.Root, "")
	for i, bk := range pool {
		g, gok := got.Blocks[bk.hash]
		w, wok := want.Blocks[bk.hash]
		switch {
		case gok && !wok:
			out = append(out, fmt.Sprintf("block b%d %s visible in btcd, absent in model", i, bk))
		case !gok && wok:
			out = append(out, fmt.Sprintf("block b%d %s absent in btcd, present in model", i, bk))
		case gok && wok && !bytes.Equal(g, w):
			out = append(out, fmt.Sprintf("block b%d %s bytes differ", i, bk))
		}
	}
	sort.Strings(out)
	if len(out) > 12 {
		out = append(out[:12], fmt.Sprintf("... %d more", len(out)-12))
	}
	return strings.Join(out, "\n    ")
}

// checkCommitted compares the committed state seen by a fresh View with the
// model's committed state.
func (e *env) checkCommitted(what string) {
	var got *kvmodel.State
	var derr error
	var pruned bool
	var perr error
	err := e.db.View(func(tx database.Tx) error {
		got, derr = e.dump(tx, nil)
		pruned, perr = tx.BeenPruned()
		return nil
	})
	if err != nil {
		e.failf("", "%s: View failed: %v", what, err)
	}
	if derr != nil {
		e.failf("", "%s: reading the committed state: %v", what, derr)
	}
	if !got.Equal(e.m.Committed) {
		e.failf("", "%s: committed state differs from the model:\n    %s", what, diffState(got, e.m.Committed, e.pool))
	}
	// BeenPruned is not part of the property: observed, never asserted
	if perr == nil && pruned != e.m.Committed.Pruned {
		files, _ := filepath.Glob(filepath.Join(e.dir, "*.fdb"))
		if !pruned && len(files) == 1 {
			e.rec.Count("observed:"+obsBeenPruned, 1)
		} else {
			e.rec.Count("observed:been-pruned-differs-otherwise", 1)
		}
	}
}

// probeCommitted is the cheap form of checkCommitted: one generated bucket
// (keys, values, order) and one generated block are compared.
func (e *env) probeCommitted(t *rapid.T, what string) {
	mt, _ := e.m.Begin(false)
	defer mt.Rollback()
	ps := allPaths(mt)
	path := ps[rapid.IntRange(0, len(ps)-1).Draw(t, "probePath")]
	bi := rapid.IntRange(0, len(e.pool)-1).Draw(t, "probeBlock")
	err := e.db.View(func(tx database.Tx) error {
		p := &txPair{real: tx, m: mt, lost: map[kvmodel.Hash]bool{}, id: -1}
		n := len(e.log)
		e.apply(p, Op{K: "foreach", Path: path, N: -1})
		e.apply(p, Op{K: "foreachb", Path: path, N: -1})
		e.apply(p, Op{K: "fetch", B: []int{bi}})
		e.log = e.log[:n]
		return nil
	})
	if err != nil {
		e.failf("", "%s: View failed: %v", what, err)
	}
}

// checkSnapshot compares everything an open transaction sees with its model.
func (e *env) checkSnapshot(p *txPair, what string) {
	got, err := e.dump(p.real, p.lost)
	if err != nil {
		sig := ""
		if len(p.lost) > 0 {
			sig = sigReaderPruned
		}
		e.failf(sig, "%s: reading through tx#%d: %v", what, p.id, err)
	}
	if !got.Equal(p.m.S) {
		e.failf("", "%s: tx#%d (writable=%v, began %d commits ago) differs from its model snapshot:\n    %s", what, p.id, p.m.Writable, p.m.Outlived(), diffState(got, p.m.S, e.pool))
	}
}

// ---------------------------------------------------------------------------
// directory copies (crash images, fault bases)

func copyDir(src, dst string) error {
	return filepath.Walk(src, func(path string, info os.FileInfo, err error) error {
		if err != nil {
			if os.IsNotExist(err) {
				return os.ErrNotExist // a file vanished during the walk (leveldb background compaction)
			}
			return err
		}
		rel, _ := filepath.Rel(src, path)
		target := filepath.Join(dst, rel)
		if info.IsDir() {
			return os.MkdirAll(target, 0o755)
		}
		if info.Name() == "LOCK" {
			return os.WriteFile(target, nil, 0o644)
		}
		in, err := os.Open(path)
		if err != nil {
			if os.IsNotExist(err) {
				return os.ErrNotExist
			}
			return err
		}
		defer in.Close()
		out, err := os.Create(target)
		if err != nil {
			return err
		}
		if _, err := io.Copy(out, in); err != nil {
			out.Close()
			return err
		}
		return out.Close()
	})
}

// dirStamp lists name/size/mtime of every file (to detect a copy racing with
// a background leveldb compaction).
func dirStamp(dir string) string {
	var sb strings.Builder
	filepath.Walk(dir, func(path string, info os.FileInfo, err error) error {
		if err == nil && !info.IsDir() {
			fmt.Fprintf(&sb, "%s:%d:%d;", path[len(dir):], info.Size(), info.ModTime().UnixNano())
		}
		return nil
	})
	return sb.String()
}
