package c05

import (
	"sort"

	"pgregory.net/rapid"

	"verif/internal/model/kvmodel"
)

// opGen draws operations that make sense in the current model state of a
// transaction.  All randomness comes from rapid.
type opGen struct {
	e        *env
	uniq     uint32
	maxDepth int
	noCursor bool // workloads replayed as data cannot keep cursor slots across ops of different txs
	noPrune  bool
}

func (g *opGen) newBlock(t *rapid.T) int {
	g.uniq++
	b := genBlock(t, g.uniq, int(g.e.maxFile)-12)
	for _, o := range g.e.pool {
		if o.hash == b.hash {
			infra(t, "generated two blocks with one hash")
		}
	}
	g.e.pool = append(g.e.pool, b)
	return len(g.e.pool) - 1
}

// allPaths lists every bucket path of the transaction's view.
func allPaths(mt *kvmodel.Tx) [][]string {
	var out [][]string
	var walk func(b *kvmodel.Bucket, path []string)
	walk = func(b *kvmodel.Bucket, path []string) {
		out = append(out, append([]string(nil), path...))
		for _, s := range b.SortedSubs() {
			walk(b.Subs[s], append(path, s))
		}
	}
	walk(mt.S.Root, nil)
	return out
}

func (g *opGen) pickPath(t *rapid.T, mt *kvmodel.Tx) []string {
	ps := allPaths(mt)
	// bias towards deeper buckets: sort by depth and sample twice
	sort.SliceStable(ps, func(i, j int) bool { return len(ps[i]) < len(ps[j]) })
	i := rapid.IntRange(0, len(ps)-1).Draw(t, "path")
	j := rapid.IntRange(0, len(ps)-1).Draw(t, "path2")
	if j > i {
		i = j
	}
	return ps[i]
}

// pickKey draws a key name: an existing key of the bucket, or one from the
// alphabet (which may or may not exist).
func (g *opGen) pickKey(t *rapid.T, b *kvmodel.Bucket) string {
	ks := b.SortedKeys()
	if len(ks) > 0 && rapid.IntRange(0, 2).Draw(t, "existing") > 0 {
		return rapid.SampledFrom(ks).Draw(t, "key")
	}
	return rapid.SampledFrom(nameAlphabet).Draw(t, "key")
}

func (g *opGen) pickBlock(t *rapid.T, mt *kvmodel.Tx, wantPresent bool) int {
	var present, absent []int
	for i, bk := range g.e.pool {
		if _, ok := mt.S.Blocks[bk.hash]; ok {
			present = append(present, i)
		} else {
			absent = append(absent, i)
		}
	}
	if wantPresent && len(present) > 0 {
		// bias to the most recent (pending) and the oldest (prune candidates)
		switch rapid.IntRange(0, 3).Draw(t, "bsel") {
		case 0:
			return present[len(present)-1]
		case 1:
			return present[0]
		}
		return rapid.SampledFrom(present).Draw(t, "blk")
	}
	if !wantPresent && len(absent) > 0 {
		return rapid.SampledFrom(absent).Draw(t, "blk")
	}
	if len(g.e.pool) == 0 {
		return g.newBlock(t)
	}
	return rapid.IntRange(0, len(g.e.pool)-1).Draw(t, "blk")
}

func (g *opGen) region(t *rapid.T, mt *kvmodel.Tx) RegSpec {
	bi := g.pickBlock(t, mt, rapid.IntRange(0, 7).Draw(t, "rpresent") > 0)
	L := uint32(len(g.e.pool[bi].raw))
	var off, ln uint32
	switch rapid.IntRange(0, 15).Draw(t, "rkind") {
	case 10:
		off, ln = 0, L+12 // the on-disk record is 12 bytes longer than the block
	case 11:
		off, ln = 0, L+13
	case 12:
		off, ln = L+12, 1
	case 13:
		off, ln = L+13, 0
	case 0:
		off, ln = 0, L // whole block
	case 1:
		off, ln = 0, L+1 // one past the end
	case 2:
		off, ln = L, 0 // empty region at the end
	case 3:
		off, ln = L, 1 // starts at the end
	case 4:
		off, ln = L-1, 1 // last byte
	case 5:
		off, ln = L-1, 2
	case 6:
		off, ln = 0xffffffff, 2 // offset+len wraps around uint32
	case 7:
		off, ln = 1, 0xffffffff
	case 8:
		off, ln = 0, 80 // the header
	case 9:
		off, ln = L+1, 0
	default:
		off = rapid.Uint32Range(0, L).Draw(t, "off")
		ln = rapid.Uint32Range(0, L-off).Draw(t, "len")
	}
	if end := uint64(off) + uint64(ln); end > uint64(L) && end <= uint64(L)+12 && known(sigRegionPast) {
		if _, present := mt.S.Blocks[g.e.pool[bi].hash]; present && !mt.Pending[g.e.pool[bi].hash] {
			// known finding: excluded input class (committed block, region ends 1..12 bytes past the block)
			g.e.rec.Excluded()
			g.e.rec.Count("excluded:region-past-end", 1)
			off, ln = L+13, 0
		}
	}
	return RegSpec{B: bi, Off: off, Len: ln}
}

// draw returns the next operation for transaction p, or ok=false when the
// drawn operation falls into an excluded input class (counted).
func (g *opGen) draw(t *rapid.T, p *txPair) (Op, bool) {
	mt := p.m
	e := g.e
	w := mt.Writable
	kinds := []string{"put", "put", "put", "put", "del", "del", "get", "get", "mkb", "mkbx", "rmb", "foreach", "foreachb",
		"cursor", "cursor", "cursor", "cursor", "cursor", "cursor", "store", "store", "store", "store", "store", "has", "hasn", "fetch", "fetch", "hdr", "fetchn", "hdrn", "region", "region", "regionn", "prune"}
	if !w {
		kinds = []string{"put", "del", "get", "get", "get", "mkb", "mkbx", "rmb", "foreach", "foreach", "foreachb",
			"cursor", "cursor", "cursor", "cursor", "cursor", "cursor", "store", "has", "hasn", "fetch", "fetch", "fetch", "hdr", "fetchn", "hdrn", "region", "region", "regionn", "prune"}
	}
	k := rapid.SampledFrom(kinds).Draw(t, "op")
	switch k {
	case "put":
		path := g.pickPath(t, mt)
		b := mt.Bucket(path)
		name := g.pickKey(t, b)
		switch rapid.IntRange(0, 19).Draw(t, "putspecial") {
		case 0:
			name = "" // ErrKeyRequired
		case 1:
			if subs := b.SortedSubs(); len(subs) > 0 {
				name = subs[0] // key names an existing bucket: ErrIncompatibleValue
			}
		}
		if _, isB := b.Subs[name]; isB && w {
			// outside the domain: interface.go promises ErrIncompatibleValue, ffldb stores the pair in a
			// separate namespace (an API-contract deviation the property does not cover; see TestKnownFindings observations)
			e.rec.Count("domain-excluded:put-on-bucket-name", 1)
			return Op{}, false
		}
		return Op{K: "put", Path: path, Name: name, Val: genVal(t)}, true
	case "del":
		path := g.pickPath(t, mt)
		b := mt.Bucket(path)
		name := g.pickKey(t, b)
		switch rapid.IntRange(0, 19).Draw(t, "delspecial") {
		case 0:
			name = ""
		case 1:
			if subs := b.SortedSubs(); len(subs) > 0 {
				name = subs[0]
			}
		}
		if w {
			if _, isB := b.Subs[name]; isB {
				e.rec.Count("domain-excluded:delete-on-bucket-name", 1)
				return Op{}, false
			}
			if name == "" {
				e.rec.Count("domain-excluded:delete-empty-key", 1)
				return Op{}, false
			}
		}
		return Op{K: "del", Path: path, Name: name}, true
	case "get":
		path := g.pickPath(t, mt)
		b := mt.Bucket(path)
		name := g.pickKey(t, b)
		if rapid.IntRange(0, 15).Draw(t, "getspecial") == 0 {
			name = ""
		}
		return Op{K: "get", Path: path, Name: name}, true
	case "mkb", "mkbx":
		path := g.pickPath(t, mt)
		b := mt.Bucket(path)
		name := rapid.SampledFrom(bucketAlphabet).Draw(t, "bname")
		if rapid.IntRange(0, 15).Draw(t, "mkbspecial") == 0 {
			name = "" // ErrBucketNameRequired
		}
		if len(path) >= g.maxDepth && w {
			if _, exists := b.Subs[name]; !exists && name != "" {
				return Op{}, false // would nest deeper than the bound
			}
		}
		if _, isKey := b.Keys[name]; isKey {
			return Op{}, false // bucket named like an existing key: not specified by the contract
		}
		return Op{K: k, Path: path, Name: name}, true
	case "rmb":
		path := g.pickPath(t, mt)
		b := mt.Bucket(path)
		name := rapid.SampledFrom(bucketAlphabet).Draw(t, "bname")
		if subs := b.SortedSubs(); len(subs) > 0 && rapid.IntRange(0, 3).Draw(t, "rmexisting") > 0 {
			name = rapid.SampledFrom(subs).Draw(t, "sub")
		}
		return Op{K: "rmb", Path: path, Name: name}, true
	case "foreach", "foreachb":
		path := g.pickPath(t, mt)
		n := -1
		if rapid.IntRange(0, 3).Draw(t, "stop") == 0 {
			n = rapid.IntRange(0, 3).Draw(t, "stopat")
		}
		return Op{K: k, Path: path, N: n}, true
	case "cursor":
		if g.noCursor {
			return Op{}, false
		}
		return g.drawCursor(t, p)
	case "store":
		var bi int
		if len(e.pool) > 0 && rapid.IntRange(0, 5).Draw(t, "dup") == 0 {
			bi = g.pickBlock(t, mt, rapid.Bool().Draw(t, "storepresent")) // duplicate, or re-store after rollback/prune
		} else {
			bi = g.newBlock(t)
		}
		return Op{K: "store", B: []int{bi}}, true
	case "has", "fetch", "hdr":
		bi := g.pickBlock(t, mt, rapid.IntRange(0, 4).Draw(t, "fpresent") > 0)
		return Op{K: k, B: []int{bi}}, true
	case "hasn", "fetchn", "hdrn":
		n := rapid.IntRange(0, 4).Draw(t, "n")
		var bs []int
		for i := 0; i < n; i++ {
			bs = append(bs, g.pickBlock(t, mt, rapid.IntRange(0, 7).Draw(t, "npresent") > 0 || k == "hasn" && rapid.Bool().Draw(t, "hp")))
		}
		return Op{K: k, B: bs}, true
	case "region":
		return Op{K: "region", Regs: []RegSpec{g.region(t, mt)}}, true
	case "regionn":
		n := rapid.IntRange(0, 4).Draw(t, "n")
		var rs []RegSpec
		for i := 0; i < n; i++ {
			rs = append(rs, g.region(t, mt))
		}
		return Op{K: "regionn", Regs: rs}, true
	case "prune":
		if g.noPrune {
			return Op{}, false
		}
		if w && p.pruneCalls > 0 {
			// at most one PruneBlocks per write transaction (a second call re-schedules the same
			// files; outside the domain by decision of the lead, observed in TestKnownFindings)
			e.rec.Count("domain-excluded:second-prune-in-tx", 1)
			return Op{}, false
		}
		mf := uint64(e.maxFile)
		target := rapid.SampledFrom([]uint64{mf, mf, mf + 1, 2 * mf, 2 * mf, 3 * mf, 5 * mf, 1 << 40}).Draw(t, "target")
		return Op{K: "prune", Target: target}, true
	}
	return Op{}, false
}

func (g *opGen) drawCursor(t *rapid.T, p *txPair) (Op, bool) {
	e := g.e
	mt := p.m
	if len(p.curs) == 0 || (len(p.curs) < 2 && rapid.IntRange(0, 9).Draw(t, "newcur") == 0) {
		return Op{K: "cnew", Path: g.pickPath(t, mt), Cur: len(p.curs)}, true
	}
	slot := rapid.IntRange(0, len(p.curs)-1).Draw(t, "slot")
	c := p.curs[slot]
	if mt.Bucket(c.m.Path) == nil {
		return Op{K: "cnew", Path: g.pickPath(t, mt), Cur: slot}, true
	}
	moves := []string{"cfirst", "clast", "cseek", "cseek", "cnext", "cnext", "cnext", "cnext", "cprev", "cprev", "cprev", "ckv", "cdel", "cdel", "cnew"}
	if !c.m.Positioned && !c.m.Stale && c.lastMove == "" {
		moves = []string{"cfirst", "cfirst", "clast", "clast", "cseek", "cseek", "cnext", "cprev", "ckv"} // a new cursor is positioned first (Next/Prev/Key on a new cursor: exhausted behaviour)
	}
	k := rapid.SampledFrom(moves).Draw(t, "cop")
	if c.m.Stale && (k == "cnext" || k == "cprev" || k == "ckv" || k == "cdel") {
		// "any modifications to the bucket ... invalidates the cursor.  After
		// invalidation, the cursor must be repositioned"
		k = rapid.SampledFrom([]string{"cfirst", "clast", "cseek"}).Draw(t, "reposition")
	}
	switch k {
	case "cnew":
		return Op{K: "cnew", Path: g.pickPath(t, mt), Cur: slot}, true
	case "cseek":
		b := mt.Bucket(c.m.Path)
		name := g.pickKey(t, b)
		switch rapid.IntRange(0, 9).Draw(t, "seekspecial") {
		case 0:
			name = ""
		case 1:
			name = "\xff\xff\xff"
		}
		if known(sigSeekBuckets) && treapBuckets(p, c.m.Path) {
			// known finding: nested buckets held in a treap layer (tx or unflushed cache) are lost by Seek
			e.rec.Excluded()
			e.rec.Count("excluded:seek-with-treap-layer-buckets", 1)
			return Op{}, false
		}
		return Op{K: "cseek", Name: name, Cur: slot}, true
	case "cdel":
		if !c.m.Positioned || c.m.Deleted {
			return Op{}, false // Delete on an unpositioned cursor / twice: not specified
		}
		if !mt.Writable {
			// Cursor.Delete in a read-only transaction: outside the domain (ffldb returns nil and the
			// key then disappears from that transaction's iterations; observed in TestKnownFindings)
			e.rec.Count("domain-excluded:cursor-delete-read-only", 1)
			return Op{}, false
		}
		return Op{K: "cdel", Cur: slot}, true
	case "cnext", "cprev":
		if c.m.Positioned && c.m.Forward != (k == "cnext") && known(sigSeekBuckets) && treapBuckets(p, c.m.Path) {
			// the merged key/bucket iterator re-seeks the nested-bucket iterator on reversal: same root cause as Seek
			e.rec.Excluded()
			e.rec.Count("excluded:reversal-with-treap-layer-buckets", 1)
			return Op{}, false
		}
		if c.m.Positioned && c.m.Forward != (k == "cnext") && known(sigCursorReversal) && !g.singleSource(p, c) {
			e.rec.Excluded()
			e.rec.Count("excluded:cursor-reversal", 1)
			return Op{}, false
		}
		return Op{K: k, Cur: slot}, true
	}
	return Op{K: k, Cur: slot}, true
}

// singleSource: every entry of the cursor's bucket comes from one of ffldb's
// three layers (transaction, cache, leveldb), so a change of direction is
// outside the input class of the known finding sigCursorReversal.
func (g *opGen) singleSource(p *txPair, c *curPair) bool {
	if p.m.Writable && (p.m.PathTouched(c.m.Path)) {
		return false
	}
	return p.cacheOK || (!g.e.flushed && len(c.m.Path) > 0)
}

// step draws and applies one operation, or a burst of cursor operations on
// one cursor (generation depends on the cursor position, so drawing and
// applying interleave).  It returns the number of operations applied.
func (g *opGen) step(t *rapid.T, p *txPair, note func(*txPair, Op)) int {
	op, ok := g.draw(t, p)
	if !ok {
		return 0
	}
	n := 1
	if note != nil {
		note(p, op)
	}
	g.e.apply(p, op)
	if len(op.K) > 1 && op.K[0] == 'c' && isCursorKind(op.K) {
		burst := rapid.IntRange(0, 7).Draw(t, "burst")
		for i := 0; i < burst && len(p.curs) > 0; i++ {
			cop, ok := g.drawCursor(t, p)
			if !ok {
				continue
			}
			if note != nil {
				note(p, cop)
			}
			g.e.apply(p, cop)
			n++
		}
	}
	return n
}

func isCursorKind(k string) bool {
	switch k {
	case "cnew", "cfirst", "clast", "cnext", "cprev", "cseek", "cdel", "ckv":
		return true
	}
	return false
}
