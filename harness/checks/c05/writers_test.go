package c05

import (
	"encoding/binary"
	"fmt"
	"sync"
	"testing"
	"time"

	"github.com/btcsuite/btcd/database"
	"pgregory.net/rapid"

	"verif/internal/ev"
)

// ---------------------------------------------------------------------------
// writers that queue behind an open write transaction: the single-writer lock
// serialises them, so each must work on the state the previous one committed

var recWriters = ev.New("C05", "queued-writers",
	"writer A holds an open write transaction (Begin(true)); 1-4 further writers call Update / Begin(true) while it is open and queue behind it (the harness gives them 15 ms to reach the lock); A commits or rolls back; "+
		"every writer does a read-modify-write of one counter key, appends its own key, and creates a bucket named after itself; "+
		"oracle: whatever the timing, the outcome must be that of SOME sequential order of the writers: the counter equals the number of committed writers, every committed writer's key and bucket are present with ITS data, "+
		"bucket contents are not shared; built with -race; non-trivial = at least two writers queued behind A; distinct by (writers, commit pattern)",
	"one-queued", "several-queued")

func TestQueuedWriters(t *testing.T) {
	rapid.Check(t, func(t *rapid.T) {
		defer catchAbort()
		e := newEnv(t, recWriters, "writers", genMaxFile(t))
		defer e.cleanup()
		n := rapid.IntRange(1, 4).Draw(t, "queued")
		aCommits := rapid.IntRange(0, 3).Draw(t, "aCommits") > 0
		commits := make([]bool, n)
		managed := make([]bool, n)
		pattern := fmt.Sprint(aCommits)
		for i := range commits {
			commits[i] = rapid.IntRange(0, 4).Draw(t, "commit") > 0
			managed[i] = rapid.Bool().Draw(t, "managed")
			pattern += fmt.Sprint(commits[i], managed[i])
		}
		cl := "one-queued"
		if n >= 2 {
			cl = "several-queued"
		}
		recWriters.Case(n >= 2, cl, ev.HashS(pattern), func() any {
			return map[string]any{"queued_writers": n, "a_commits": aCommits, "commits": commits, "managed": managed}
		})
		counterKey := []byte("counter")
		work := func(tx database.Tx, who string) error {
			md := tx.Metadata()
			var c uint64
			if v := md.Get(counterKey); len(v) == 8 {
				c = binary.BigEndian.Uint64(v)
			}
			if err := md.Put(counterKey, binary.BigEndian.AppendUint64(nil, c+1)); err != nil {
				return err
			}
			if err := md.Put([]byte("key-"+who), []byte("value-"+who)); err != nil {
				return err
			}
			b, err := md.CreateBucket([]byte("bucket-" + who))
			if err != nil {
				return err
			}
			return b.Put([]byte("owner"), []byte(who))
		}
		// A opens
		txA, err := e.db.Begin(true)
		if err != nil {
			infra(t, "Begin(true): %v", err)
		}
		if err := work(txA, "A"); err != nil {
			t.Fatalf("writer A: %v", err)
		}
		var wg sync.WaitGroup
		errs := make([]error, n)
		for i := 0; i < n; i++ {
			wg.Add(1)
			go func(i int) {
				defer wg.Done()
				who := fmt.Sprintf("W%d", i)
				if managed[i] {
					errs[i] = e.db.Update(func(tx database.Tx) error {
						if err := work(tx, who); err != nil {
							return err
						}
						if !commits[i] {
							return errRollback
						}
						return nil
					})
					if errs[i] == errRollback {
						errs[i] = nil
					}
					return
				}
				tx, err := e.db.Begin(true)
				if err != nil {
					errs[i] = err
					return
				}
				if err := work(tx, who); err != nil {
					_ = tx.Rollback()
					errs[i] = err
					return
				}
				if commits[i] {
					errs[i] = tx.Commit()
				} else {
					errs[i] = tx.Rollback()
				}
			}(i)
		}
		time.Sleep(15 * time.Millisecond) // let them reach the writer lock (any timing must give a correct outcome)
		if aCommits {
			err = txA.Commit()
		} else {
			err = txA.Rollback()
		}
		if err != nil {
			t.Fatalf("writer A finishing: %v", err)
		}
		wg.Wait()
		want := uint64(0)
		if aCommits {
			want++
		}
		for i := range commits {
			if errs[i] != nil {
				t.Fatalf("queued writer W%d failed: %v (A committed=%v, pattern %s)", i, errs[i], aCommits, pattern)
			}
			if commits[i] {
				want++
			}
		}
		verr := e.db.View(func(tx database.Tx) error {
			md := tx.Metadata()
			var c uint64
			if v := md.Get(counterKey); len(v) == 8 {
				c = binary.BigEndian.Uint64(v)
			}
			if c != want {
				return fmt.Errorf("counter = %d after %d committed read-modify-write transactions (lost update): A committed=%v, queued writers committed=%v", c, want, aCommits, commits)
			}
			check := func(who string, committed bool) error {
				v := md.Get([]byte("key-" + who))
				b := md.Bucket([]byte("bucket-" + who))
				if !committed {
					if v != nil || b != nil {
						return fmt.Errorf("rolled-back writer %s left data behind", who)
					}
					return nil
				}
				if string(v) != "value-"+who {
					return fmt.Errorf("key of committed writer %s = %q", who, v)
				}
				if b == nil {
					return fmt.Errorf("bucket of committed writer %s is missing", who)
				}
				if o := b.Get([]byte("owner")); string(o) != who {
					return fmt.Errorf("bucket of writer %s holds the data of %q (bucket ids handed out twice?)", who, o)
				}
				return nil
			}
			if err := check("A", aCommits); err != nil {
				return err
			}
			for i := range commits {
				if err := check(fmt.Sprintf("W%d", i), commits[i]); err != nil {
					return err
				}
			}
			return nil
		})
		if verr != nil {
			t.Fatalf("%v", verr)
		}
	})
}
