package c05

import (
	"fmt"
	"os"
	"strings"
)

func dbgDump(e *env) {
	if os.Getenv("C05_DEBUG") != "" {
		n := map[string]int{}
		for _, l := range e.log {
			f := strings.Fields(l)
			if len(f) > 1 {
				n[f[1]]++
			}
			if strings.Contains(l, "prune") {
				fmt.Println(e.maxFile, l)
			}
		}
		fmt.Println(len(e.log), n)
	}
}
