package c05

import (
	"bytes"
	"encoding/binary"
	"fmt"
	"os"
	"sync"
	"sync/atomic"
	"testing"
	"time"

	"github.com/btcsuite/btcd/btcutil/v2"
	"github.com/btcsuite/btcd/chainhash/v2"
	"github.com/btcsuite/btcd/database"
	"github.com/btcsuite/btcd/database/ffldb"
	"github.com/btcsuite/btcd/wire/v2"

	"verif/internal/ev"
	"verif/internal/model/kvmodel"
	"verif/internal/scratch"
)

// Deterministic, library-free reproductions of every finding that the
// generated sub-checks exclude by construction.  A reproduction that fails
// and is not listed in known_findings.jsonl is a violation; one that is
// listed prints its KNOWN-FINDING line (once) and is counted.  Entries marked
// observe are API-contract deviations of interface.go that property C05 does
// not claim (error codes, BeenPruned, two PruneBlocks in one transaction):
// their input classes are outside the generated domain; here they are only
// counted ("observed:<label>") and never fail the run.

var recKnown = ev.New("C05", "known-findings-regression",
	"fixed minimal histories, one per finding signature that the generated sub-checks exclude by construction; each states the contract's answer and compares; "+
		"a deviation that is not listed in known_findings.jsonl fails the run; non-trivial and distinct by construction (one case per signature)",
)

func fixedBlock(n uint32, pay int) *blk {
	var mb wire.MsgBlock
	mb.Header.Version = 1
	mb.Header.Nonce = n
	mb.Header.Timestamp = time.Unix(1400000000, 0)
	if pay > 0 {
		tx := wire.NewMsgTx(1)
		tx.AddTxIn(wire.NewTxIn(&wire.OutPoint{Index: n}, expand(uint64(n)+7, pay), nil))
		mb.AddTransaction(tx)
	}
	var buf bytes.Buffer
	_ = mb.Serialize(&buf)
	raw := buf.Bytes()
	b := &blk{b: btcutil.NewBlock(&mb), raw: raw, hash: kvmodel.BlockHash(raw)}
	b.ch = chainhash.Hash(b.hash)
	return b
}

type repro struct {
	sig string
	run func(t *testing.T) (deviates bool, observed string)
	// observe: an API-contract deviation outside property C05; counted, never asserted
	observe bool
}

func freshDB(t *testing.T, tag string) (database.DB, string) {
	dir := scratch.Dir(tag)
	db, err := database.Create("ffldb", dir, wire.MainNet)
	if err != nil {
		t.Fatalf("VERIF-INFRA: database.Create: %v", err)
	}
	ffldb.VerifSetCacheLimits(db, 1<<40, 1000*time.Hour)
	return db, dir
}

func must(t *testing.T, err error) {
	t.Helper()
	if err != nil {
		t.Fatalf("VERIF-INFRA: setup step failed: %v", err)
	}
}

// storeSpread commits n blocks of ~400 bytes, one per transaction, with a
// 1 KiB file limit (two blocks per file).
func storeSpread(t *testing.T, db database.DB, n int) []*blk {
	var out []*blk
	for i := 0; i < n; i++ {
		b := fixedBlock(uint32(100+i), 300)
		ffldb.TstRunWithMaxBlockFileSize(db, 1024, func() {
			must(t, db.Update(func(tx database.Tx) error { return tx.StoreBlock(b.b) }))
		})
		out = append(out, b)
	}
	return out
}

var repros = []repro{
	{sig: sigCursorReversal, run: func(t *testing.T) (bool, string) {
		db, dir := freshDB(t, "k1")
		defer os.RemoveAll(dir)
		defer db.Close()
		must(t, db.Update(func(tx database.Tx) error {
			b, _ := tx.Metadata().CreateBucket([]byte("u"))
			_ = b.Put([]byte("a"), []byte("1"))
			return b.Put([]byte("c"), []byte("3"))
		}))
		var seq []string
		must(t, db.Update(func(tx database.Tx) error {
			b := tx.Metadata().Bucket([]byte("u"))
			_ = b.Put([]byte("b"), []byte("2"))
			_ = b.Put([]byte("d"), []byte("4"))
			c := b.Cursor()
			c.First()
			seq = append(seq, string(c.Key()))
			c.Next()
			seq = append(seq, string(c.Key()))
			c.Prev()
			seq = append(seq, string(c.Key()))
			return nil
		}))
		return fmt.Sprint(seq) != "[a b a]", fmt.Sprintf("committed {a,c} + pending {b,d}: First,Next,Prev visit %v, ordered map says [a b a]", seq)
	}},
	{sig: sigCursorStaleSeek, run: func(t *testing.T) (bool, string) {
		db, dir := freshDB(t, "k2")
		defer os.RemoveAll(dir)
		defer db.Close()
		var got string
		var ok bool
		must(t, db.Update(func(tx database.Tx) error {
			b, _ := tx.Metadata().CreateBucket([]byte("u"))
			for _, k := range []string{"a", "c", "m", "p"} {
				_ = b.Put([]byte(k), []byte(k))
			}
			c := b.Cursor()
			c.First()
			_ = c.Delete()
			c.Seek([]byte("m"))
			ok = c.Next()
			got = string(c.Key())
			return nil
		}))
		return !ok || got != "p", fmt.Sprintf("pending {a,c,m,p}: First, Cursor.Delete, Seek(m), Next -> %v %q, want true \"p\"", ok, got)
	}},
	{sig: obsPutBucketName, observe: true, run: func(t *testing.T) (bool, string) {
		db, dir := freshDB(t, "k3")
		defer os.RemoveAll(dir)
		defer db.Close()
		var err error
		_ = db.Update(func(tx database.Tx) error {
			_, _ = tx.Metadata().CreateBucket([]byte("bk"))
			err = tx.Metadata().Put([]byte("bk"), []byte("x"))
			return nil
		})
		return codeOf(err) != kvmodel.IncompatibleValue, fmt.Sprintf("Put(key = existing bucket name) returned %v, contract: ErrIncompatibleValue", err)
	}},
	{sig: obsDeleteBucketName, observe: true, run: func(t *testing.T) (bool, string) {
		db, dir := freshDB(t, "k4")
		defer os.RemoveAll(dir)
		defer db.Close()
		var err error
		_ = db.Update(func(tx database.Tx) error {
			_, _ = tx.Metadata().CreateBucket([]byte("bk"))
			err = tx.Metadata().Delete([]byte("bk"))
			return nil
		})
		return codeOf(err) != kvmodel.IncompatibleValue, fmt.Sprintf("Delete(key = existing bucket name) returned %v, contract: ErrIncompatibleValue", err)
	}},
	{sig: obsDeleteEmptyKey, observe: true, run: func(t *testing.T) (bool, string) {
		db, dir := freshDB(t, "k5")
		defer os.RemoveAll(dir)
		defer db.Close()
		var err error
		_ = db.Update(func(tx database.Tx) error {
			err = tx.Metadata().Delete(nil)
			return nil
		})
		return codeOf(err) != kvmodel.KeyRequired, fmt.Sprintf("Delete(empty key) returned %v, contract: ErrKeyRequired", err)
	}},
	{sig: obsCursorDeleteRO, observe: true, run: func(t *testing.T) (bool, string) {
		db, dir := freshDB(t, "k6")
		defer os.RemoveAll(dir)
		defer db.Close()
		must(t, db.Update(func(tx database.Tx) error { return tx.Metadata().Put([]byte("a"), []byte("1")) }))
		var err error
		hidden := false
		_ = db.View(func(tx database.Tx) error {
			c := tx.Metadata().Cursor()
			c.First()
			err = c.Delete()
			seen := false
			_ = tx.Metadata().ForEach(func(k, v []byte) error {
				if string(k) == "a" {
					seen = true
				}
				return nil
			})
			hidden = !seen && tx.Metadata().Get([]byte("a")) != nil
			return nil
		})
		return codeOf(err) != kvmodel.TxNotWritable, fmt.Sprintf("Cursor.Delete in a View returned %v, contract: ErrTxNotWritable; key hidden from ForEach of that View while Get still returns it: %v", err, hidden)
	}},
	{sig: sigRegionPast, run: func(t *testing.T) (bool, string) {
		db, dir := freshDB(t, "k7")
		defer os.RemoveAll(dir)
		defer db.Close()
		b := fixedBlock(1, 100)
		b2 := fixedBlock(2, 100)
		must(t, db.Update(func(tx database.Tx) error { _ = tx.StoreBlock(b.b); return tx.StoreBlock(b2.b) }))
		var got []byte
		var err error
		_ = db.View(func(tx database.Tx) error {
			got, err = tx.FetchBlockRegion(&database.BlockRegion{Hash: &b.ch, Offset: uint32(len(b.raw)), Len: 1})
			return nil
		})
		return codeOf(err) != kvmodel.BlockRegionInvalid, fmt.Sprintf("committed block of %d bytes, region (%d,1): got %x, %v; contract: ErrBlockRegionInvalid", len(b.raw), len(b.raw), got, err)
	}},
	{sig: sigSeekBuckets, run: func(t *testing.T) (bool, string) {
		db, dir := freshDB(t, "k8")
		defer os.RemoveAll(dir)
		defer db.Close()
		var okLast, okSeek bool
		var k string
		must(t, db.Update(func(tx database.Tx) error {
			b, _ := tx.Metadata().CreateBucket([]byte("x"))
			_, _ = b.CreateBucket([]byte("r"))
			c := b.Cursor()
			okLast = c.Last()
			okSeek = c.Seek([]byte("e"))
			k = string(c.Key())
			return nil
		}))
		return okLast && !(okSeek && k == "r"), fmt.Sprintf("bucket holding only the pending nested bucket r: Last=%v, Seek(e)=%v at %q; forward iteration from First reaches r, so Seek(e) must too", okLast, okSeek, k)
	}},
	{sig: sigTreapSeekStart, run: func(t *testing.T) (bool, string) {
		m := database.VerifNewTreapMutable()
		m.Put([]byte("a"), nil)
		m.Put([]byte("m"), nil)
		it := m.Iterator([]byte("k"), nil)
		ok := it.Seek([]byte("a"))
		return !ok || string(it.Key()) != "m", fmt.Sprintf("keys {a,m}, Iterator(start=k).Seek(a) = %v at %q, want true at \"m\"", ok, it.Key())
	}},
	{sig: sigTreapStaleSeek, run: func(t *testing.T) (bool, string) {
		m := database.VerifNewTreapMutable()
		for _, k := range []string{"a", "c", "m", "p"} {
			m.Put([]byte(k), nil)
		}
		it := m.Iterator(nil, nil)
		it.First()
		m.Delete([]byte("a"))
		it.ForceReseek()
		it.Seek([]byte("m"))
		ok := it.Next()
		return !ok || string(it.Key()) != "p", fmt.Sprintf("keys {a,c,m,p}: First, Delete(a)+ForceReseek, Seek(m), Next = %v at %q, want true at \"p\"", ok, it.Key())
	}},
	{sig: sigTreapOneBound, run: func(t *testing.T) (bool, string) {
		m := database.VerifNewTreapMutable()
		m.Put([]byte(""), nil)
		it := m.Iterator([]byte("a"), nil)
		ok := it.Last()
		it2 := m.Iterator(nil, []byte(""))
		m.Put([]byte("b"), nil)
		it3 := m.Iterator(nil, []byte("a"))
		_ = it2
		ok3 := it3.First() // "" is in range: fine
		it4 := m.Iterator(nil, []byte(""))
		ok4 := it4.First() // nothing is < ""
		return ok || !ok3 || ok4, fmt.Sprintf("keys {''}: Iterator(start=a,limit=nil).Last()=%v (want false); keys {'',b}: Iterator(nil,limit='').First()=%v (want false)", ok, ok4)
	}},
	{sig: obsBeenPruned, observe: true, run: func(t *testing.T) (bool, string) {
		db, dir := freshDB(t, "k12")
		defer os.RemoveAll(dir)
		defer db.Close()
		storeSpread(t, db, 4) // files 0 and 1
		var n int
		ffldb.TstRunWithMaxBlockFileSize(db, 1024, func() {
			must(t, db.Update(func(tx database.Tx) error {
				hs, err := tx.PruneBlocks(1024)
				n = len(hs)
				return err
			}))
		})
		var pruned bool
		_ = db.View(func(tx database.Tx) error { pruned, _ = tx.BeenPruned(); return nil })
		return n > 0 && !pruned, fmt.Sprintf("PruneBlocks removed %d blocks and was committed, BeenPruned() = %v", n, pruned)
	}},
	{sig: sigReaderPruned, run: func(t *testing.T) (bool, string) {
		db, dir := freshDB(t, "k13")
		defer os.RemoveAll(dir)
		defer db.Close()
		bs := storeSpread(t, db, 4)
		rd, err := db.Begin(false)
		must(t, err)
		defer rd.Rollback()
		ffldb.TstRunWithMaxBlockFileSize(db, 1024, func() {
			must(t, db.Update(func(tx database.Tx) error { _, err := tx.PruneBlocks(1024); return err }))
		})
		has, _ := rd.HasBlock(&bs[0].ch)
		raw, ferr := rd.FetchBlock(&bs[0].ch)
		return has && !bytes.Equal(raw, bs[0].raw), fmt.Sprintf("reader opened before the pruning commit: HasBlock=%v, FetchBlock err=%v", has, ferr)
	}},
	{sig: obsPruneTwice, observe: true, run: func(t *testing.T) (bool, string) {
		db, dir := freshDB(t, "k14")
		defer os.RemoveAll(dir)
		defer db.Close()
		bs := storeSpread(t, db, 4)
		var uerr error
		ffldb.TstRunWithMaxBlockFileSize(db, 1024, func() {
			uerr = db.Update(func(tx database.Tx) error {
				if _, err := tx.PruneBlocks(1024); err != nil {
					return err
				}
				_, err := tx.PruneBlocks(1024)
				return err
			})
		})
		var has bool
		var ferr error
		_ = db.View(func(tx database.Tx) error {
			has, _ = tx.HasBlock(&bs[0].ch)
			_, ferr = tx.FetchBlock(&bs[0].ch)
			return nil
		})
		return uerr != nil || (has && ferr != nil), fmt.Sprintf("PruneBlocks twice in one Update: Update returned %v; afterwards HasBlock(oldest)=%v FetchBlock err=%v", uerr, has, ferr)
	}},
	{sig: sigPruneFault, run: func(t *testing.T) (bool, string) {
		db, dir := freshDB(t, "k15")
		defer os.RemoveAll(dir)
		defer db.Close()
		bs := storeSpread(t, db, 4)
		ffldb.VerifInterposeFiles(db, func(op ffldb.VerifFileOp) error {
			if op.Op == "write" {
				return errInjected
			}
			return nil
		})
		nb := fixedBlock(999, 300)
		var uerr error
		ffldb.TstRunWithMaxBlockFileSize(db, 1024, func() {
			uerr = db.Update(func(tx database.Tx) error {
				if _, err := tx.PruneBlocks(1024); err != nil {
					return err
				}
				return tx.StoreBlock(nb.b)
			})
		})
		var has bool
		var ferr error
		_ = db.View(func(tx database.Tx) error {
			has, _ = tx.HasBlock(&bs[0].ch)
			_, ferr = tx.FetchBlock(&bs[0].ch)
			return nil
		})
		return uerr != nil && has && ferr != nil, fmt.Sprintf("Update{PruneBlocks; StoreBlock} with the block write failing returned %v; afterwards HasBlock(oldest)=%v but FetchBlock err=%v", uerr, has, ferr)
	}},
	{sig: sigPruneCrash, run: func(t *testing.T) (bool, string) {
		db, dir := freshDB(t, "k16")
		defer os.RemoveAll(dir)
		defer db.Close()
		bs := storeSpread(t, db, 4)
		must(t, ffldb.VerifFlushCache(db))
		ffldb.TstRunWithMaxBlockFileSize(db, 1024, func() {
			must(t, db.Update(func(tx database.Tx) error { _, err := tx.PruneBlocks(1024); return err }))
		})
		img := scratch.Dir("k16img")
		defer os.RemoveAll(img)
		must(t, copyDir(dir, img))
		idb, err := database.Open("ffldb", img, wire.MainNet)
		if err != nil {
			return true, fmt.Sprintf("crash image after an unflushed pruning commit does not open: %v", err)
		}
		defer idb.Close()
		var has bool
		var ferr error
		_ = idb.View(func(tx database.Tx) error {
			has, _ = tx.HasBlock(&bs[0].ch)
			_, ferr = tx.FetchBlock(&bs[0].ch)
			return nil
		})
		return has && ferr != nil, fmt.Sprintf("crash image after an unflushed pruning commit: HasBlock(pruned)=%v, FetchBlock err=%v (equals neither the state before nor after the commit)", has, ferr)
	}},
}

func init() {
	repros = append(repros, repro{sig: sigSnapshotFlush, run: func(t *testing.T) (bool, string) {
		// schedule dependent: readers spin on View while the writer alternates commit and cache flush
		db, dir := freshDB(t, "k17")
		defer os.RemoveAll(dir)
		defer db.Close()
		put := func(r uint64) {
			var b [8]byte
			binary.BigEndian.PutUint64(b[:], r)
			must(t, db.Update(func(tx database.Tx) error { return tx.Metadata().Put([]byte("stamp"), b[:]) }))
		}
		put(0)
		var committed atomic.Uint64
		var done atomic.Bool
		var mu sync.Mutex
		obs := ""
		var wg sync.WaitGroup
		for k := 0; k < 4; k++ {
			wg.Add(1)
			go func() {
				defer wg.Done()
				for !done.Load() {
					lo := committed.Load()
					_ = db.View(func(tx database.Tx) error {
						raw := tx.Metadata().Get([]byte("stamp"))
						v := uint64(0)
						if len(raw) == 8 {
							v = binary.BigEndian.Uint64(raw)
						}
						if len(raw) != 8 || v < lo {
							mu.Lock()
							if obs == "" {
								obs = fmt.Sprintf("a View begun after Update #%d returned reads stamp %x (its snapshot = leveldb before the flush + cache after the flush)", lo, raw)
							}
							mu.Unlock()
							done.Store(true)
						}
						return nil
					})
				}
			}()
		}
		start := time.Now()
		for r := uint64(1); time.Since(start) < 3*time.Second && !done.Load(); r++ {
			put(r)
			committed.Store(r)
			must(t, ffldb.VerifFlushCache(db))
		}
		done.Store(true)
		wg.Wait()
		if obs == "" {
			return false, "not reproduced in this run (schedule dependent: needs a reader between GetSnapshot and the cache read for the duration of a flush)"
		}
		return true, obs
	}})
}

func TestKnownFindings(t *testing.T) {
	for _, r := range repros {
		dev, obs := r.run(t)
		recKnown.Case(true, r.sig, ev.HashS(r.sig), func() any {
			return map[string]any{"signature": r.sig, "deviates": dev, "observed": obs, "observation_only": r.observe}
		})
		if r.observe {
			if dev {
				recKnown.Count("observed:"+r.sig, 1)
				t.Logf("observation (not asserted, outside property C05) [%s]: %s", r.sig, obs)
			} else {
				recKnown.Count("not-observed:"+r.sig, 1)
			}
			continue
		}
		switch {
		case dev && recKnown.Known(r.sig, obs):
			recKnown.Count("reproduced-and-listed", 1)
		case dev:
			t.Errorf("violation (not listed in known_findings.jsonl) [%s]: %s", r.sig, obs)
		case known(r.sig):
			recKnown.Count("listed-but-no-longer-reproduces", 1)
			t.Logf("NOTE: %s is listed as known but no longer reproduces (%s); move its line to status \"fixed\" so that the generators stop excluding the class", r.sig, obs)
		default:
			recKnown.Count("holds", 1)
		}
	}
}
