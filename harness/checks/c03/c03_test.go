// Package c03 decides property C03: the UTXO set and the undo data always
// equal the fold of the active chain.
package c03

import (
	"bytes"
	"fmt"
	"os"
	"strings"
	"testing"

	"github.com/btcsuite/btcd/blockchain"
	"github.com/btcsuite/btcd/chainhash/v2"
	"github.com/btcsuite/btcd/wire/v2"
	"pgregory.net/rapid"

	ce "verif/internal/chainenv"
	"verif/internal/ev"
	"verif/internal/scratch"
)

func TestMain(m *testing.M) {
	code := m.Run()
	scratch.Sweep()
	ev.Flush()
	os.Exit(code)
}

var recFold = ev.New("C03", "utxo-fold",
	"block trees (3-40 blocks, forks, variable work, spending transactions incl. same-block chains, OP_RETURN outputs, and - without BIP34 - identical coinbases that re-create a fully spent txid) "+
		"delivered in tree order to a real chain with UtxoCacheMaxSize in {0, 1KiB, 64KiB, 100MiB}; between deliveries: FlushUtxoCache(Required|Periodic|IfNeeded), clean re-open with and without a final flush "+
		"(the latter leaves the persisted utxo set behind the tip and exercises the replay), InvalidateBlock/ReconsiderBlock (multi-block disconnects and reconnects); "+
		"oracle after every step: FetchUtxoEntry for every outpoint ever created in the tree == fold of the model's active chain (amount, script, height, coinbase flag), FetchUtxoView for a sampled tx, "+
		"FetchSpendJournal of every active block == model spent coins in order, TotalTxns; after each required flush the raw persisted bucket (decoded independently) == model set, "+
		"and a history that returns to an earlier tip reproduces the earlier persisted bytes; "+
		"non-trivial = history has a spend after a flush, a create+spend between flushes, a re-created txid, a reorg >= 2 deep, or a flush/re-open between the blocks of a reorganisation; distinct by (tree, history) hash",
	"spend-after-flush", "recreated-txid", "deep-reorg", "reopen-unflushed", "create-spend-unflushed", "plain")

type step struct {
	kind string // block, flush, reopen, invalidate, reconsider
	node *ce.Node
	mode blockchain.FlushMode
	flag bool
	// cache: utxo cache size after a reopen (0 = as before, otherwise size+1)
	cache uint64
}

func (s step) String() string {
	switch s.kind {
	case "flush":
		return fmt.Sprintf("flush(%d)", s.mode)
	case "reopen":
		if s.cache != 0 {
			return fmt.Sprintf("reopen(flush=%v,cache=%d)", s.flag, s.cache-1)
		}
		return fmt.Sprintf("reopen(flush=%v)", s.flag)
	}
	return fmt.Sprintf("%s(node%d)", s.kind, s.node.Idx)
}

// genReopen draws a restart: with or without the final flush, with the same
// utxo cache size or another one (a node may come back with another -utxocache
// setting: a small one makes the recovery replay flush block by block).
func genReopen(t *rapid.T, flush bool) step {
	st := step{kind: "reopen", flag: flush}
	if rapid.IntRange(0, 2).Draw(t, "otherCache") > 0 {
		// sizes of a few entries make a recovery replay flush somewhere in the middle and end
		// with unflushed entries
		st.cache = 1 + rapid.SampledFrom([]uint64{0, 1, 200, 400, 700, 1 << 10, 1500, 2 << 10, 3 << 10, 4 << 10, 8 << 10, 64 << 10, 100 << 20}).Draw(t, "cacheAfterReopen")
	}
	return st
}

func genSteps(t *rapid.T, tr *ce.Tree) []step {
	var steps []step
	var delivered []*ce.Node
	for _, n := range tr.Nodes[1:] {
		if n.Self == ce.InvalidSanity || n.Self == ce.InvalidContext || !ancestryStored(n) {
			// never stored: skip (C02 covers rejected deliveries)
			continue
		}
		switch rapid.IntRange(0, 9).Draw(t, "between") {
		case 0, 1:
			steps = append(steps, step{kind: "flush", mode: rapid.SampledFrom([]blockchain.FlushMode{blockchain.FlushRequired, blockchain.FlushRequired, blockchain.FlushPeriodic, blockchain.FlushIfNeeded}).Draw(t, "mode")})
		case 2:
			steps = append(steps, genReopen(t, rapid.Bool().Draw(t, "flushOnClose")))
			if !steps[len(steps)-1].flag && rapid.IntRange(0, 2).Draw(t, "crashAgain") > 0 {
				// the process dies again right after the recovery
				steps = append(steps, genReopen(t, false))
			}
		case 3:
			if len(delivered) > 0 {
				x := delivered[rapid.IntRange(0, len(delivered)-1).Draw(t, "manualNode")]
				steps = append(steps, step{kind: rapid.SampledFrom([]string{"invalidate", "reconsider"}).Draw(t, "manual"), node: x})
			}
		}
		steps = append(steps, step{kind: "block", node: n})
		delivered = append(delivered, n)
		// scenario bias: flush, take a recent block out and back in, then lose
		// the cache (re-open without the final flush)
		if rapid.IntRange(0, 7).Draw(t, "combo") == 0 {
			x := delivered[len(delivered)-1-rapid.IntRange(0, min(2, len(delivered)-1)).Draw(t, "comboBack")]
			if rapid.Bool().Draw(t, "comboFlush") {
				steps = append(steps, step{kind: "flush", mode: blockchain.FlushRequired})
			}
			steps = append(steps, step{kind: "invalidate", node: x}, step{kind: "reconsider", node: x})
			if rapid.Bool().Draw(t, "comboReopen") {
				steps = append(steps, genReopen(t, false))
				if rapid.IntRange(0, 2).Draw(t, "comboCrashAgain") > 0 {
					steps = append(steps, genReopen(t, false))
				}
			}
		}
	}
	// tail: reconsider/invalidate/flush/reopen
	k := rapid.IntRange(0, 5).Draw(t, "tail")
	for i := 0; i < k && len(delivered) > 0; i++ {
		switch rapid.IntRange(0, 3).Draw(t, "tailKind") {
		case 0:
			steps = append(steps, step{kind: "flush", mode: blockchain.FlushRequired})
		case 1:
			steps = append(steps, genReopen(t, rapid.Bool().Draw(t, "flushOnClose")))
		default:
			x := delivered[rapid.IntRange(0, len(delivered)-1).Draw(t, "manualNode")]
			steps = append(steps, step{kind: rapid.SampledFrom([]string{"invalidate", "reconsider"}).Draw(t, "manual"), node: x})
		}
	}
	return steps
}

// ancestryStored: no ancestor is of a kind that is never stored.
func ancestryStored(n *ce.Node) bool {
	for it := n.Parent; it != nil; it = it.Parent {
		if it.Self == ce.InvalidSanity || it.Self == ce.InvalidContext {
			return false
		}
	}
	return true
}

func TestUtxoFold(t *testing.T) {
	rapid.Check(t, func(t *rapid.T) {
		tr := ce.GenTree(t, ce.TreeCfg{
			Families:  []ce.Family{ce.FamNoBIP34, ce.FamFlat, ce.FamNoBIP34, ce.FamWork},
			MinBlocks: 3, MaxBlocks: ev.Scale(24, 40), MaxInvalid: 1, Txs: true, ForkProb: 20,
			Maturity: []uint16{1, 1, 2, 3}, OddScripts: true,
		})
		steps := genSteps(t, tr)
		cache := rapid.SampledFrom([]uint64{0, 1 << 10, 64 << 10, 100 << 20}).Draw(t, "utxoCache")
		runCase(t, tr, steps, cache)
	})
}

func runCase(t *rapid.T, tr *ce.Tree, steps []step, cache uint64) {
	env, err := ce.NewEnv(tr.Params, ce.EnvOpt{UtxoCacheMaxSize: cache})
	if err != nil {
		t.Fatalf("VERIF-INFRA: %v", err)
	}
	defer env.Close()
	sel := ce.NewSel(tr)
	universe := tr.Universe()
	hist := func(i int) string {
		var sb strings.Builder
		for j := 0; j <= i && j < len(steps); j++ {
			sb.WriteString(steps[j].String() + " ")
		}
		return fmt.Sprintf("cache=%d history: %s\ntree: %s", cache, sb.String(), tr.Describe())
	}
	// event tracking for the non-triviality rule
	flushedAt := map[wire.OutPoint]bool{} // outpoints that were persisted by a flush
	createdSinceFlush := map[wire.OutPoint]bool{}
	seenTx := map[chainhash.Hash]int{}
	ev_ := map[string]bool{}
	persistedAtTip := map[*ce.Node]map[wire.OutPoint][]byte{}
	lastTip := tr.Genesis

	for i, s := range steps {
		switch s.kind {
		case "block":
			sel.DeliverBlock(s.node)
			env.Deliver(s.node)
		case "flush":
			if err := env.Chain.FlushUtxoCache(s.mode); err != nil {
				t.Fatalf("step %d %s: %v\n%s", i, s, err, hist(i))
			}
		case "reopen":
			if s.cache != 0 {
				env.Opt.UtxoCacheMaxSize = s.cache - 1
				ev_["reopen-other-cache"] = true
			}
			if err := env.Reopen(s.flag); err != nil {
				t.Fatalf("step %d %s: re-open failed: %v\n%s", i, s, err, hist(i))
			}
			if !s.flag {
				ev_["reopen-unflushed"] = true
			}
		case "invalidate", "reconsider":
			if !sel.InIndex(s.node) || sel.Murky[s.node] {
				continue
			}
			h := s.node.Hash
			if s.kind == "invalidate" {
				if sel.ManualRelated(s.node) {
					recFold.Excluded()
					continue
				}
				sel.Invalidate(s.node)
				env.Chain.InvalidateBlock(&h)
			} else {
				sel.Reconsider(s.node)
				env.Chain.ReconsiderBlock(&h)
			}
		}
		if s.kind != "reopen" {
			// settle murky storage
			for _, n := range tr.Nodes {
				if sel.Murky[n] && n.ChainValid && sel.Arrived[n.Parent] {
					h := n.Hash
					if have, _ := env.Chain.HaveBlock(&h); have && !env.Chain.IsKnownOrphan(&h) {
						sel.ResolvedArrived(n)
					}
				}
			}
		}
		if err := ce.CheckTip(env, sel); err != nil {
			t.Fatalf("step %d %s: %v\n%s", i, s, err, hist(i))
		}
		tip := sel.Tip
		// classify what happened between lastTip and tip
		if tip != lastTip {
			fork := tip
			for !fork.IsAncestorOf(lastTip) {
				fork = fork.Parent
			}
			if lastTip.Height-fork.Height >= 2 {
				ev_["deep-reorg"] = true
			}
			for n := tip; n != fork; n = n.Parent {
				for ti, tx := range n.Msg.Transactions {
					h := tx.TxHash()
					seenTx[h]++
					if ti == 0 && seenTx[h] > 1 && hasTag(n, "dup-coinbase") {
						// the same txid connected again on the active chain
						for a := n.Parent; a != nil; a = a.Parent {
							if a.Msg.Transactions[0].TxHash() == h {
								ev_["recreated-txid"] = true
							}
						}
					}
					if ti > 0 {
						for _, in := range tx.TxIn {
							if flushedAt[in.PreviousOutPoint] {
								ev_["spend-after-flush"] = true
							}
							if createdSinceFlush[in.PreviousOutPoint] {
								ev_["create-spend-unflushed"] = true
							}
						}
					}
					for oi := range tx.TxOut {
						createdSinceFlush[wire.OutPoint{Hash: h, Index: uint32(oi)}] = true
					}
				}
			}
			lastTip = tip
		}

		if snap := env.Chain.BestSnapshot(); snap.TotalTxns != tip.TotalTxns {
			t.Fatalf("step %d %s: TotalTxns %d, fold %d\n%s", i, s, snap.TotalTxns, tip.TotalTxns, hist(i))
		}
		if err := ce.CheckUtxo(env, tip, universe); err != nil {
			t.Fatalf("step %d %s: %v\n%s", i, s, err, hist(i))
		}
		if err := ce.CheckSpendJournals(env, tip); err != nil {
			t.Fatalf("step %d %s: %v\n%s", i, s, err, hist(i))
		}
		if len(tip.Msg.Transactions) > 1 {
			if err := ce.CheckUtxoView(env, tip, tip.Msg.Transactions[len(tip.Msg.Transactions)-1]); err != nil {
				t.Fatalf("step %d %s: %v\n%s", i, s, err, hist(i))
			}
		}
		required := s.kind == "flush" && s.mode == blockchain.FlushRequired || s.kind == "reopen" && s.flag
		if required || i == len(steps)-1 {
			if !required {
				if err := env.Chain.FlushUtxoCache(blockchain.FlushRequired); err != nil {
					t.Fatalf("final flush: %v\n%s", err, hist(i))
				}
			}
			raw, err := ce.CheckPersisted(env, tip)
			if err != nil {
				t.Fatalf("step %d %s (after required flush): %v\n%s", i, s, err, hist(i))
			}
			if prev, ok := persistedAtTip[tip]; ok {
				if len(prev) != len(raw) {
					t.Fatalf("step %d %s: persisted utxo set at node%d has %d entries, had %d when this tip was flushed before\n%s", i, s, tip.Idx, len(raw), len(prev), hist(i))
				}
				for op, v := range raw {
					if !bytes.Equal(prev[op], v) {
						t.Fatalf("step %d %s: persisted entry %v at node%d = %x, was %x when this tip was flushed before\n%s", i, s, op, tip.Idx, v, prev[op], hist(i))
					}
				}
			}
			persistedAtTip[tip] = raw
			for op := range raw {
				flushedAt[op] = true
			}
			createdSinceFlush = map[wire.OutPoint]bool{}
			// after a flush the in-memory answers must still be the fold
			if err := ce.CheckUtxo(env, tip, universe); err != nil {
				t.Fatalf("step %d %s (after flush): %v\n%s", i, s, err, hist(i))
			}
		}
	}
	if ev_["reopen-other-cache"] {
		recFold.Count("reopen-other-cache", 1)
	}
	cl := "plain"
	for _, k := range []string{"recreated-txid", "spend-after-flush", "deep-reorg", "reopen-unflushed", "create-spend-unflushed"} {
		if ev_[k] {
			if cl == "plain" {
				cl = k
			} else {
				recFold.Count(k, 1)
			}
		}
	}
	var parts [][]byte
	for _, n := range tr.Nodes {
		parts = append(parts, n.Hash[:])
	}
	var sb strings.Builder
	for _, s := range steps {
		sb.WriteString(s.String())
	}
	parts = append(parts, []byte(sb.String()), []byte(fmt.Sprint(cache)))
	recFold.Case(cl != "plain", cl, ev.Hash(parts...), func() any {
		return map[string]any{"family": tr.Family, "cache": cache, "history": sb.String(), "blocks": len(tr.Nodes) - 1, "class": cl, "final_tip": sel.Tip.Idx}
	})
}

func hasTag(n *ce.Node, tag string) bool {
	for _, t := range n.Tags {
		if t == tag {
			return true
		}
	}
	return false
}
