#!/usr/bin/env python3
"""Regenerates /verif/MANIFEST.json from tools/manifest_src.json (per-property
texts) and the plan.json files present under harness/checks."""
import json, os, subprocess
V = os.path.dirname(os.path.dirname(os.path.abspath(__file__)))
src = json.load(open(os.path.join(V, "tools", "manifest_src.json")))
props = [json.loads(l)["id"] for l in open(os.path.join(V, "properties.jsonl"))]
hooks = subprocess.run(["git", "-C", "/repo", "log", "--format=%H %s", "--grep=^verif hook"], capture_output=True, text=True).stdout.split("\n")
hook_commits = [l.split()[0] for l in hooks if l.strip()]
checks, na = [], []
for pid in props:
    plan_p = os.path.join(V, "harness", "checks", pid.lower(), "plan.json")
    s = src["checks"].get(pid)
    if os.path.exists(plan_p) and s and not s.get("disabled"):
        plan = json.load(open(plan_p))
        checks.append({
            "property_id": pid,
            "quick_cmd": "./run %s quick" % pid,
            "thorough_cmd": "./run %s thorough" % pid,
            "evidence_file": "/verif/evidence/%s.json" % pid,
            "replay_cmd_template": "./run %s quick --replay {path}" % pid,
            "engine": "rapid-harness",
            "level_claimed": {"category": plan.get("level", "exploration"), "text": s["level_text"], "design_ref": "DESIGN.md section 3, %s" % pid},
            "level_note": s["level_note"],
            "technique": s["technique"],
        })
    else:
        na.append({"property_id": pid, "reason": (s or {}).get("na_reason", src["default_na_reason"])})
m = {
    "version": 1,
    "setup_cmd": "./run setup",
    "hooks": {
        "guard": "verif",
        "enable": "go build tag: every check is compiled with `go test -c -tags verif` through the harness module /verif/harness (replace directives onto /repo and its sub-modules)",
        "baseline_off_cmd": src["baseline_off_cmd"],
        "source_commits": hook_commits,
        "add_only": True,
    },
    "engines": [{"name": "rapid-harness", "path": "/verif/harness", "serves_properties": [c["property_id"] for c in checks],
                 "kind_free_text": "Go property-based tests (pgregory.net/rapid v1.3.0, stateful/model-based where the property is over histories) plus native go fuzz targets in the thorough tier; independent reference models under harness/internal/model; driver /verif/run"}],
    "checks": checks,
    "notes": src["notes"],
    "not_applicable": na,
}
json.dump(m, open(os.path.join(V, "MANIFEST.json"), "w"), indent=1)
print("checks:", [c["property_id"] for c in checks], "not_applicable:", [n["property_id"] for n in na])
