#!/usr/bin/env python3
"""Re-merges tools/seed_notes.json (what / needs / history) into every seeded/<id>/meta.json."""
import json, glob, os
notes = json.load(open("/verif/tools/seed_notes.json"))
for f in sorted(glob.glob("/verif/seeded/*/meta.json")):
    k = os.path.basename(os.path.dirname(f))
    m = json.load(open(f))
    m.update(notes.get(k, {}))
    json.dump(m, open(f, "w"), indent=1)
print("merged", len(glob.glob("/verif/seeded/*/meta.json")))
