#!/usr/bin/env python3
"""Prints the markdown table of one round of independently written changes
(letters given on the command line, e.g. `G H`) from seeded/<id>/meta.json.
"first" is read from the history note (it starts with "round N: missed ..." or
"... caught at first run"), "now" from the last recorded check run."""
import json, os, sys
letters = sys.argv[1:] or ["G", "H"]
print("| id | change (one line) | first | now | caught by |")
print("|----|-------------------|-------|-----|-----------|")
for i in range(1, 21):
    for l in letters:
        k = "C%02d-%s" % (i, l)
        f = "/verif/seeded/%s/meta.json" % k
        if not os.path.exists(f):
            continue
        m = json.load(open(f))
        what = m.get("what", "")
        if len(what) > 150:
            what = what[:147] + "..."
        hist = m.get("history", "")
        first = "miss" if "missed" in hist else "yes"
        run = m["check_run"]
        now = "yes" if run["detected"] == "yes" else "no (seed 1)"
        subs = sorted(set(s.split("#")[0] for s in run["failing_sub_checks"].replace("failing job ", "").split()))
        print("| %s | %s | %s | %s | %s |" % (k, what.replace("|", "/"), first, now, ", ".join(subs)))
