#!/bin/bash
# usage: tools/seed_eval.sh <PROPERTY> <LETTER> <diff> <demo_test.go> <pkgdir relative to repo> [module dir, default .]
# Confirms an independently written breaking change (compiles, existing tests of
# the package pass, demo passes without / fails with the change), then runs the
# property's quick check against it, and stores everything under /verif/seeded/.
set -u
PID="$1"; L="$2"; DIFF="$3"; DEMO="$4"; PKG="$5"; MOD="${6:-.}"
WT=/dev/shm/verif-seed-$$
OUT=/verif/seeded/${PID}-${L}
mkdir -p "$OUT"
git -C /repo worktree add --detach -f "$WT" HEAD >/dev/null 2>&1 || { echo "worktree failed"; exit 2; }
trap 'git -C /repo worktree remove --force "$WT" >/dev/null 2>&1; rm -rf "$WT"' EXIT
export GOFLAGS=-mod=mod GOPROXY=off
SKIP=""; case "$PKG" in blockchain|./blockchain) SKIP="-skip TestFlushOnPrune|TestInitConsistentState";; esac  # both need a data file that is empty in this sandbox
rel="${PKG#$MOD/}"; [ "$MOD" = "." ] && rel="$PKG"; [ "$PKG" = "$MOD" ] && rel="."
demo_name=$(basename "$DEMO")
runpkg() { (cd "$WT/$MOD" && go test -count=1 $SKIP "$@" "./$rel/" 2>&1 | tail -5); }
cp "$DEMO" "$WT/$PKG/$demo_name"
fn=$(grep -o "func Test[A-Za-z0-9_]*" "$DEMO" | head -1 | sed 's/func //')
clean=$(runpkg -run "^${fn}\$"); echo "$clean" | grep -q "^ok" && demo_clean=pass || demo_clean=FAIL
git -C "$WT" apply "$DIFF" || { echo "patch does not apply"; exit 2; }
(cd "$WT/$MOD" && go build ./... >/dev/null 2>&1) && compiles=yes || compiles=NO
mut=$(runpkg -run "^${fn}\$"); echo "$mut" | grep -q "^ok" && demo_mut=PASS || demo_mut=fail
rm "$WT/$PKG/$demo_name"
ex=$(runpkg); echo "$ex" | grep -q "^ok" && existing=pass || existing=FAIL
git -C "$WT" checkout go.sum go.mod 2>/dev/null
cd /verif
chk=$(VERIF_REPO="$WT" ./run "$PID" quick 2>&1 | grep -v "\[rapid\] draw")
rc=$(echo "$chk" | grep -c "^VIOLATION")
sub=$(echo "$chk" | grep -o "failing job [A-Za-z0-9_#]*" | sort -u | tr '\n' ' ')
summary=$(echo "$chk" | grep -E "seed=" | tail -1)
cp "$DIFF" "$OUT/patch.diff"; cp "$DEMO" "$OUT/$demo_name"
detected=no; [ "$rc" -gt 0 ] && detected=yes
export M_L="$L" M_PID="$PID" M_PKG="$PKG" M_MOD="$MOD" M_FN="$fn" M_COMP="$compiles" M_DC="$demo_clean" M_DM="$demo_mut" M_EX="$existing" M_DET="$detected" M_SUB="$sub" M_SUM="$summary"
python3 - "$OUT/meta.json" <<'PY'
import json,sys,os
e=os.environ
json.dump({"property":e["M_PID"],"package":e["M_PKG"],"module":e["M_MOD"],"demo_test":e["M_FN"],
 "confirmed":{"compiles":e["M_COMP"],"demo_on_clean_tree":e["M_DC"],"demo_with_change":e["M_DM"],"existing_package_tests_with_change":e["M_EX"]},
 "check_run":{"command":"VERIF_REPO=<worktree with patch> ./run %s quick"%e["M_PID"],"detected":e["M_DET"],"failing_sub_checks":e["M_SUB"],"summary":e["M_SUM"]},
 **json.load(open("/verif/tools/seed_notes.json")).get(e["M_PID"]+"-"+e["M_L"],{})}, open(sys.argv[1],"w"), indent=1)
PY
echo "$PID-$L: compiles=$compiles demo_clean=$demo_clean demo_mut=$demo_mut existing=$existing detected=$detected [$sub] $summary"
