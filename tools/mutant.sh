#!/bin/bash
# usage: tools/mutant.sh <patch.diff | "sed-expr@file"> <ID> [tier]
# Applies a change to a scratch worktree of /repo under /dev/shm, runs the
# check against it (VERIF_REPO), prints the verdict and removes the worktree.
set -u
PATCH="$1"; ID="$2"; TIER="${3:-quick}"
WT=/dev/shm/verif-mut-$$
git -C /repo worktree add --detach -f "$WT" HEAD >/dev/null 2>&1 || { echo "worktree failed"; exit 2; }
trap 'git -C /repo worktree remove --force "$WT" >/dev/null 2>&1; rm -rf "$WT"' EXIT
if [ -f "$PATCH" ]; then
  git -C "$WT" apply "$PATCH" || { echo "patch does not apply"; exit 2; }
else
  expr="${PATCH%@*}"; file="${PATCH##*@}"
  sed -i -E "$expr" "$WT/$file"
  if git -C "$WT" diff --quiet; then echo "sed changed nothing"; exit 2; fi
  git -C "$WT" diff | head -30
fi
cd /verif && VERIF_REPO="$WT" ./run "$ID" "$TIER" 2>&1 | grep -v "^\s*c[0-9]*_test.go.*\[rapid\] draw" | tail -${TAILN:-25}
echo "mutant exit: ${PIPESTATUS[0]}"
